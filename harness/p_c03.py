"""C03: multiplexed frames - exactly the active signals are decoded and encoded.
Tie: Frame.decode / Frame.encode / Signal.multiplexer_value_in_range / Signal.multiplex_setter + Frame.multiplex_signals
vs model/Mux.v (cmd 301-307), on simply multiplexed frames (API) and extended-multiplexing frames built twice: through the
API the way formats/dbc.py assigns roles, and by loading generated DBC text (loads_flat); the roles of both must agree and
satisfy the model's wf_extb.  Search oracle (independent of the code under test): own bit reader/writer + a recursive
transcription of "active" (static, or parent multiplexer active and parent's value in one of the ranges / equal to the
single value)."""
import core
import layouts

LEVEL_NOTE = ("theorems are about model/Mux.v on top of model/Codec.v; DBC text parsing (regexes of formats/dbc.py) is glue that is "
              "only exercised, not modelled (C05/C15); PDU containers, float multiplexers and string (label) selector values are "
              "outside the model; frames with duplicate signal names are outside the property (the while loop may not terminate there)")


# ---------- independent oracle: bits ----------
def read_raw(payload, le, start, size, signed):
    pos = layouts.positions(le, start, size)
    bits = [(payload[n // 8] >> (n % 8)) & 1 for n in pos]
    if le:
        u = sum(b << i for i, b in enumerate(bits))
    else:
        u = 0
        for b in bits:
            u = (u << 1) | b
    if signed and (u >> (size - 1)) & 1:
        u -= 1 << size
    return u


def write_raw(buf, le, start, size, value):
    pos = layouts.positions(le, start, size)
    u = value % (1 << size)
    if le:
        bits = [(u >> i) & 1 for i in range(size)]
    else:
        bits = [(u >> (size - 1 - j)) & 1 for j in range(size)]
    for n, b in zip(pos, bits):
        if b:
            buf[n // 8] |= 1 << (n % 8)
        else:
            buf[n // 8] &= ~(1 << (n % 8)) & 0xFF


def raw_range(size, signed):
    return (-(1 << (size - 1)), (1 << (size - 1)) - 1) if signed else (0, (1 << size) - 1)


# ---------- independent oracle: which signals are active ----------
def accepts(sd, v):
    """sd: signal description; v: the parent's value"""
    if sd["ranges"]:
        return any(lo <= v <= hi for lo, hi in sd["ranges"])
    return sd["single"] is not None and v == sd["single"]


def active_set(desc, payload):
    """recursive transcription of the property on the DESCRIPTION the generator produced (not on canmatrix objects)"""
    by_idx = {s["i"]: s for s in desc["sigs"]}
    memo = {}

    def act(i, depth=0):
        if i in memo:
            return memo[i]
        s = by_idx[i]
        if s["parent"] is None:
            r = True             # the top multiplexer and the signals bound to nothing
        else:
            p = by_idx[s["parent"]]
            r = p["role"] in ("root", "mux") and depth < 16 and act(p["i"], depth + 1) and \
                accepts(s, read_raw(payload, p["le"], p["start"], p["size"], p["signed"]))
        memo[i] = r
        return r

    return {s["i"] for s in desc["sigs"] if act(s["i"])}


# ---------- building frames ----------
def nm(i):
    return "s%d" % i


def idx(name):
    return int(name[1:])


def build_api(C, desc, dbc_style):
    """simple frames: Signal(multiplex=...) (+ multiplex_signals()); extended: the assignments formats/dbc.py performs"""
    fr = C.Frame("F", arbitration_id=C.ArbitrationId(0x123, False), size=desc["size"])
    objs = {}
    for s in desc["sigs"]:
        if s["role"] == "root":
            tok = "Multiplexor"
        elif s["role"] == "static":
            tok = None
        else:
            tok = s["token"]
        o = C.Signal(nm(s["i"]), start_bit=s["start"], size=s["size"], is_little_endian=s["le"], is_signed=s["signed"], multiplex=tok)
        if s["role"] == "mux":
            o.is_multiplexer = True
            o.multiplex = "Multiplexor"
            fr.is_complex_multiplexed = True
        fr.add_signal(o)
        objs[s["i"]] = o
    if desc["complex"]:
        for s in desc["sigs"]:
            if s["parent"] is not None and s["ranges"]:
                o = objs[s["i"]]
                fr.is_complex_multiplexed = True
                o.muxer_for_signal = nm(s["parent"])
                for lo, hi in s["ranges"]:
                    o.mux_val_grp.append([lo, hi])
    if dbc_style:
        fr.multiplex_signals()
    return fr


def dbc_text(desc):
    def dbc_start(s):
        if s["le"]:
            return s["start"]
        p = s["start"]
        return 8 * (p // 8) + 7 - p % 8
    out = ['VERSION ""', "", "NS_ :", "", "BS_:", "", "BU_: E", "", "BO_ 291 F: %d E" % desc["size"]]
    for s in desc["sigs"]:
        if s["role"] == "root":
            tok = " M"
        elif s["role"] == "static":
            tok = ""
        elif s["role"] == "mux":
            tok = " m%dM" % s["token"]
        else:
            tok = " m%d" % s["token"]
        out.append(' SG_ %s%s : %d|%d@%d%s (1,0) [0|0] "" E' % (nm(s["i"]), tok, dbc_start(s), s["size"], 1 if s["le"] else 0,
                                                              "-" if s["signed"] else "+"))
    out.append("")
    for s in desc["sigs"]:
        if s["parent"] is not None and s["ranges"]:
            out.append("SG_MUL_VAL_ 291 %s %s %s;" % (nm(s["i"]), nm(s["parent"]), ", ".join("%d-%d" % (lo, hi) for lo, hi in s["ranges"])))
    out.append("")
    return "\n".join(out)


def roles_of(fr):
    return [(s.name, s.start_bit, s.size, bool(s.is_little_endian), bool(s.is_signed), bool(s.is_multiplexer), s.mux_val,
             tuple(tuple(g) for g in s.mux_val_grp), s.muxer_for_signal) for s in fr.signals]


def sig_groups(fr):
    out = []
    for s in fr.signals:
        g = [idx(s.name), s.start_bit, s.size, int(s.is_little_endian), int(s.is_signed), int(s.is_float), int(bool(s.is_multiplexer)),
             int(s.mux_val is not None), s.mux_val if s.mux_val is not None else 0,
             int(s.muxer_for_signal is not None), idx(s.muxer_for_signal) if s.muxer_for_signal is not None else 0]
        for lo, hi in s.mux_val_grp:
            g += [lo, hi]
        out.append(g)
    return out


def desc_key(desc):
    return (desc["size"], desc["complex"], tuple((s["i"], s["le"], s["start"], s["size"], s["signed"], s["role"], s["token"], s["parent"],
                                                 tuple(s["ranges"]), s["single"]) for s in desc["sigs"]))


def desc_brief(desc):
    return dict(size=desc["size"], complex=desc["complex"],
                signals=[dict(name=nm(s["i"]), le=s["le"], start=s["start"], size=s["size"], signed=s["signed"], role=s["role"],
                              multiplex=s["token"], parent=(nm(s["parent"]) if s["parent"] is not None else None),
                              ranges=s["ranges"], single=s["single"]) for s in desc["sigs"]])


# ---------- generators ----------
def place(rng, free, nbits, width, tries=60):
    """a field of `width` bits on free bits (non-overlapping); returns (le, start) or None"""
    for _ in range(tries):
        le = rng.random() < 0.5
        start = rng.randrange(0, nbits - width + 1)
        pos = set(layouts.positions(le, start, width))
        if pos <= free:
            free -= pos
            return le, start
    return None


def gen_simple(rng):
    L = rng.choice([1, 2, 2, 3, 4, 8, 8, 8, 12, 16])
    nbits = 8 * L
    w = rng.randrange(1, min(8, nbits) + 1)
    free = set(range(nbits))
    sigs = []
    signed_mux = rng.random() < 0.12
    le, start = place(rng, free, nbits, w)
    sigs.append(dict(role="root", le=le, start=start, size=w, signed=signed_mux, token=None, parent=None, ranges=[], single=None))
    if free and rng.random() < 0.8:
        for d in layouts.gen_layout(rng, L, max_signals=2, max_width=12, free=free):
            sigs.append(dict(role="static", le=d["le"], start=d["start"], size=d["size"], signed=rng.random() < 0.4, token=None, parent=None,
                             ranges=[], single=None))
    lo, hi = raw_range(w, signed_mux)
    ngroups = rng.randrange(0, 7)
    values = []
    for _ in range(ngroups):
        values.append(rng.randrange(lo, hi + 1))          # repeats merge two draws into one group
    for v in values:
        if not free:
            break
        gfree = set(free)                                  # every group starts from the same free bits: groups overlap
        for d in layouts.gen_layout(rng, L, max_signals=rng.choice([1, 2, 3]), max_width=16, free=gfree):
            sigs.append(dict(role="leaf", le=d["le"], start=d["start"], size=d["size"], signed=rng.random() < 0.4, token=v, parent=0,
                             ranges=[], single=v))
    # same group drawn twice: its members must not overlap each other -> keep only members disjoint from earlier members of that value
    seen = {}
    kept = []
    for s in sigs:
        if s["role"] != "leaf":
            kept.append(s)
            continue
        pos = set(layouts.positions(s["le"], s["start"], s["size"]))
        if pos & seen.get(s["token"], set()):
            continue
        seen.setdefault(s["token"], set()).update(pos)
        kept.append(s)
    sigs = kept
    rng.shuffle(sigs)
    for i, s in enumerate(sigs):
        s["i"] = i
    root = next(s for s in sigs if s["role"] == "root")
    for s in sigs:
        if s["role"] == "leaf":
            s["parent"] = root["i"]
    return dict(size=L, complex=False, sigs=sigs)


def split_domain(rng, lo, hi, nparts):
    """disjoint chunks of [lo, hi]"""
    n = hi - lo + 1
    cuts = sorted(rng.sample(range(1, n), min(nparts - 1, n - 1))) if n > 1 else []
    chunks = []
    a = 0
    for c in cuts + [n]:
        chunks.append((lo + a, lo + c - 1))
        a = c
    return chunks


def gen_ext(rng, dbc_single=False):
    """extended tree: depth = number of multiplexer levels (1..3); nested multiplexers below one parent accept disjoint
    value sets; leaves may overlap anything but multiplexers/static signals"""
    L = rng.choice([2, 3, 4, 8, 8, 8, 8, 12, 16])
    nbits = 8 * L
    depth = rng.choice([1, 2, 2, 3, 3, 3])
    free = set(range(nbits))
    sigs = []

    def add(role, width, signed=False, overlap_ok=False, **kw):
        width = max(1, min(width, nbits))
        if overlap_ok:
            # anywhere on bits not used by multiplexers/static signals, may overlap other leaves
            for _ in range(60):
                le = rng.random() < 0.5
                start = rng.randrange(0, nbits - width + 1)
                if set(layouts.positions(le, start, width)) <= leaf_area:
                    break
            else:
                return None
        else:
            r = place(rng, free, nbits, width)
            if r is None:
                return None
            le, start = r
        s = dict(role=role, le=le, start=start, size=width, signed=signed, token=None, parent=None, ranges=[], single=None)
        s.update(kw)
        sigs.append(s)
        return s

    root = add("root", rng.randrange(2, 6))
    levels = [[root]]
    # multiplexer skeleton first (non-overlapping)
    for lvl in range(1, depth):
        new = []
        for p in levels[-1]:
            plo, phi = raw_range(p["size"], p["signed"])
            k = rng.randrange(1, 3) if lvl == 1 else rng.randrange(0, 3)
            if k == 0:
                continue
            chunks = split_domain(rng, plo, phi, rng.randrange(k, 2 * k + 2))
            rng.shuffle(chunks)
            per = max(1, len(chunks) // k)
            for j in range(k):
                mine = chunks[j * per:(j + 1) * per][:3]
                if not mine:
                    continue
                # shrink some chunks so that gaps between ranges exist
                rs = []
                for lo, hi in mine:
                    if hi - lo >= 2 and rng.random() < 0.5:
                        lo2 = rng.randrange(lo, hi)
                        hi2 = rng.randrange(lo2, hi + 1)
                        lo, hi = lo2, hi2
                    rs.append((lo, hi))
                m = add("mux", rng.randrange(2, 5), ranges=sorted(rs))
                if m is None:
                    continue
                m["parent_obj"] = p
                m["token"] = m["ranges"][0][0]
                new.append(m)
        if not new:
            break
        levels.append(new)
    nstatic = rng.randrange(0, 3)
    for _ in range(nstatic):
        add("static", rng.choice([1, 2, 4, 8]), signed=rng.random() < 0.3)
    leaf_area = set(free)
    muxes = [m for lv in levels for m in lv]
    if leaf_area:
        for p in muxes:
            plo, phi = raw_range(p["size"], p["signed"])
            for _ in range(rng.randrange(1, 4)):
                nr = rng.randrange(1, 4)
                rs = []
                for _ in range(nr):
                    lo = rng.randrange(plo, phi + 1)
                    hi = min(phi + rng.choice([0, 0, 0, 2]), lo + rng.choice([0, 0, 1, 2, 5]))
                    rs.append((lo, max(lo, hi)))
                use_single = (rng.random() < 0.2) and (not dbc_single or p is root)
                lf = add("leaf", rng.choice([1, 2, 3, 4, 8, 12]), signed=rng.random() < 0.3, overlap_ok=True,
                         ranges=[] if use_single else rs, single=rs[0][0] if use_single else None)
                if lf is None:
                    continue
                lf["parent_obj"] = p
                lf["token"] = rs[0][0]
    rng.shuffle(sigs)
    if any(s["role"] == "leaf" and not s["ranges"] for s in sigs):
        # leaves without SG_MUL_VAL_ get the FIRST multiplexer of the frame as parent (Frame.multiplex_signals):
        # a DBC file describes that only when the top multiplexer comes first
        sigs.remove(root)
        firstmux = min(i for i, s in enumerate(sigs + [root]) if s["role"] in ("mux", "root"))
        sigs.insert(min(firstmux, len(sigs)), root)
    for i, s in enumerate(sigs):
        s["i"] = i
    for s in sigs:
        p = s.pop("parent_obj", None)
        if p is not None:
            s["parent"] = p["i"]
    # a frame is extended only when some SG_MUL_VAL_ line or an m<k>M token exists; otherwise DBC describes a simple frame
    is_ext = any(s["role"] == "mux" or (s["parent"] is not None and s["ranges"]) for s in sigs)
    return dict(size=L, complex=is_ext, sigs=sigs, depth=len(levels))


def chain_payload(rng, desc, target, value):
    """random payload in which `target` (a multiplexer) is active and carries `value`"""
    by_idx = {s["i"]: s for s in desc["sigs"]}
    buf = bytearray(rng.randrange(256) for _ in range(desc["size"]))
    s = target
    v = value
    guard = 0
    while s is not None and guard < 8:
        write_raw(buf, s["le"], s["start"], s["size"], v)
        if s["parent"] is None:
            break
        p = by_idx[s["parent"]]
        plo, phi = raw_range(p["size"], p["signed"])
        if s["ranges"]:
            cands = [(max(lo, plo), min(hi, phi)) for lo, hi in s["ranges"] if max(lo, plo) <= min(hi, phi)]
            if not cands:
                break
            lo, hi = rng.choice(cands)
            v = rng.choice([lo, hi, rng.randrange(lo, hi + 1)])
        else:
            v = s["single"]
        s = p
        guard += 1
    return bytes(buf)


def unused_sample(rng, lo, hi, used):
    c = [v for v in range(lo, hi + 1) if v not in used]
    return rng.sample(c, min(2, len(c)))


# ---------- role re-assignment histories on live objects ----------
MUX = "Multiplexor"


def tok_kind(x):
    return [0, 0] if x is None else ([1, 0] if x == MUX else [2, x])


def final_token(s):
    return MUX if s["role"] == "root" else (None if s["role"] == "static" else s["token"])


def gen_history(rng, desc, free_mux_signals=False):
    """per signal 1..3 role assignments, the last one being its final role: first the constructor argument, later ones
    `s.multiplex_setter(x)` (op 0) or `s.multiplex = s.multiplex_setter(x)` (op 1); interleaved over the signals;
    frame.multiplex_signals() (op 2) inserted where every signal's `multiplex` attribute equals its current role
    (free_mux_signals: anywhere - tie only).  Returns (constructor tokens, ops [(opcode, i, x)])"""
    root = next(s for s in desc["sigs"] if s["role"] == "root")
    lo, hi = raw_range(root["size"], root["signed"])
    pool = sorted({s["token"] for s in desc["sigs"] if s["role"] == "leaf"}) or [lo]

    def earlier():
        r = rng.random()
        if r < 0.25:
            return None
        if r < 0.45:
            return MUX
        return rng.choice(pool) if rng.random() < 0.6 else rng.randrange(lo, hi + 1)

    ctor, later = [], []
    for s in desc["sigs"]:
        k = rng.choice([1, 2, 2, 3])
        seq = [earlier() for _ in range(k - 1)] + [final_token(s)]
        ctor.append(seq[0])
        later.append([(rng.randrange(2), s["i"], x) for x in seq[1:]])
    ops = []
    role = list(ctor)
    attr = list(ctor)
    pending = [l for l in later if l]
    while pending:
        if rng.random() < 0.2 and (free_mux_signals or role == attr):
            ops.append((2, 0, None))
        l = rng.choice(pending)
        c, i, x = l.pop(0)
        ops.append((c, i, x))
        role[i] = x
        if c == 1 or x == MUX:
            attr[i] = x
        pending = [l for l in pending if l]
    if rng.random() < 0.5 and (free_mux_signals or role == attr):
        ops.append((2, 0, None))
    return ctor, ops


def run_history(C, desc, ctor, ops):
    """executes the history through the public API; returns (frame, stored_a_string)"""
    fr = C.Frame("F", arbitration_id=C.ArbitrationId(0x123, False), size=desc["size"])
    objs = []
    for s, x in zip(desc["sigs"], ctor):
        o = C.Signal(nm(s["i"]), start_bit=s["start"], size=s["size"], is_little_endian=s["le"], is_signed=s["signed"], multiplex=x)
        fr.add_signal(o)
        objs.append(o)
    bad = False
    for c, i, x in ops:
        if c == 0:
            objs[i].multiplex_setter(x)
        elif c == 1:
            objs[i].multiplex = objs[i].multiplex_setter(x)
        else:
            fr.multiplex_signals()
            bad = bad or any(isinstance(o.mux_val, str) for o in objs)
    return fr, bad


def history_out(fr):
    out = [[1]]
    for s in fr.signals:
        out.append([int(bool(s.is_multiplexer)), int(s.mux_val is not None), s.mux_val if s.mux_val is not None else 0,
                    int(s.muxer_for_signal is not None), idx(s.muxer_for_signal) if s.muxer_for_signal is not None else 0])
        # Signal.multiplex itself is not compared: the property names mux_val / is_multiplexer / muxer_for_signal / mux_val_grp only
    return out


def history_case(desc, ctor, ops):
    og = []
    for c, i, x in ops:
        og += [c, i] + tok_kind(x)
    groups = [og]
    for s, x in zip(desc["sigs"], ctor):
        groups.append(tok_kind(x) + [s["i"], s["start"], s["size"], int(s["le"]), int(s["signed"]), 0, 0, 0, 0, 0, 0])
    return groups


def history_brief(ctor, ops):
    def show(x):
        return "None" if x is None else repr(x)
    steps = ["%s = Signal(multiplex=%s)" % (nm(i), show(x)) for i, x in enumerate(ctor)]
    for c, i, x in ops:
        steps.append("frame.multiplex_signals()" if c == 2 else
                     ("%s.multiplex_setter(%s)" % (nm(i), show(x)) if c == 0 else "%s.multiplex = %s.multiplex_setter(%s)" % (nm(i), nm(i), show(x))))
    return steps


# ---------- in-place edits of a frame that has already been used ----------
import copy


def sig_bits(s):
    return set(layouts.positions(s["le"], s["start"], s["size"]))


def leaf_ranges(rng, p):
    plo, phi = raw_range(p["size"], p["signed"])
    rs = []
    for _ in range(rng.randrange(1, 4)):
        lo = rng.randrange(plo, phi + 1)
        rs.append((lo, min(phi, lo + rng.choice([0, 0, 1, 2, 5]))))
    return rs


def desc_valid(desc):
    """the edited description still lies in the property's envelope"""
    sigs = desc["sigs"]
    if desc["complex"]:
        return any(s["role"] == "mux" or (s["parent"] is not None and s["ranges"]) for s in sigs)
    # simple: signals that can be present together do not share bits
    for a in range(len(sigs)):
        for b in range(a + 1, len(sigs)):
            s, u = sigs[a], sigs[b]
            together = s["role"] != "leaf" or u["role"] != "leaf" or s["token"] == u["token"]
            if together and sig_bits(s) & sig_bits(u):
                return False
    return True


def propose_edit(rng, desc):
    """one in-place edit of the multiplexing structure: returns (new description, action for the live frame) or None"""
    d2 = copy.deepcopy(desc)
    sigs = d2["sigs"]
    by_i = {s["i"]: s for s in sigs}
    root = next(s for s in sigs if s["role"] == "root")
    muxes = [s for s in sigs if s["role"] in ("root", "mux")]
    leaves = [s for s in sigs if s["role"] == "leaf"]
    statics = [s for s in sigs if s["role"] == "static"]
    nbits = 8 * d2["size"]
    newi = max(s["i"] for s in sigs) + 1
    ext = d2["complex"]
    rlo, rhi = raw_range(root["size"], root["signed"])
    kind = rng.choice(["rebind", "rebind", "reparent", "add-leaf", "add-leaf", "add-static", "remove", "rename", "to-static", "to-leaf", "mux-ranges"])

    def new_field(avoid, width):
        for _ in range(40):
            le = rng.random() < 0.5
            start = rng.randrange(0, nbits - width + 1)
            if not (set(layouts.positions(le, start, width)) & avoid):
                return le, start
        return None

    fixed_bits = set()
    for s in sigs:
        if s["role"] != "leaf":
            fixed_bits |= sig_bits(s)
    if kind == "rebind" and leaves:
        s = rng.choice(leaves)
        if ext and s["ranges"]:
            s["ranges"] = leaf_ranges(rng, by_i[s["parent"]])
            s["token"] = s["ranges"][0][0]
        else:
            s["token"] = s["single"] = rng.randrange(rlo, rhi + 1)
        act = dict(kind=kind, i=s["i"], ranges=s["ranges"], token=s["token"], bare=rng.random() < 0.5)
    elif kind == "reparent" and ext and [s for s in leaves if s["ranges"]] and len(muxes) >= 2:
        s = rng.choice([s for s in leaves if s["ranges"]])
        pnew = rng.choice([m for m in muxes if m["i"] != s["parent"]])
        s["parent"] = pnew["i"]
        s["ranges"] = leaf_ranges(rng, pnew)
        s["token"] = s["ranges"][0][0]
        act = dict(kind=kind, i=s["i"], parent=pnew["i"], ranges=s["ranges"], token=s["token"])
    elif kind == "add-leaf":
        pm = rng.choice(muxes) if ext else root
        w = max(1, min(rng.choice([1, 2, 4, 8]), nbits))
        f = new_field(fixed_bits, w)
        if f is None:
            return None
        rs = leaf_ranges(rng, pm) if ext else []
        if not ext and leaves and rng.random() < 0.7:
            tok = rng.choice(leaves)["token"]             # joins a group that exists (and was decoded before)
        elif ext and rng.random() < 0.6 and [l for l in leaves if l["parent"] == pm["i"] and l["ranges"]]:
            rs = list(rng.choice([l for l in leaves if l["parent"] == pm["i"] and l["ranges"]])["ranges"])
            tok = rs[0][0]
        else:
            tok = rs[0][0] if ext else rng.randrange(rlo, rhi + 1)
        s = dict(i=newi, role="leaf", le=f[0], start=f[1], size=w, signed=rng.random() < 0.3, token=tok, parent=pm["i"],
                 ranges=rs, single=None if rs else tok)
        sigs.insert(rng.randrange(len(sigs) + 1) if False else len(sigs), s)
        act = dict(kind=kind, sig=s)
    elif kind == "add-static":
        allbits = set()
        for s in sigs:
            allbits |= sig_bits(s)
        w = max(1, min(rng.choice([1, 2, 4, 8]), nbits))
        f = new_field(allbits, w)
        if f is None:
            return None
        s = dict(i=newi, role="static", le=f[0], start=f[1], size=w, signed=rng.random() < 0.3, token=None, parent=None, ranges=[], single=None)
        sigs.append(s)
        act = dict(kind=kind, sig=s)
    elif kind == "remove" and (leaves or statics):
        s = rng.choice(leaves + statics)
        sigs.remove(s)
        act = dict(kind=kind, i=s["i"])
    elif kind == "rename" and (leaves or statics):
        s = rng.choice(leaves + statics)
        act = dict(kind=kind, i=s["i"], new=newi)
        s["i"] = newi
    elif kind == "to-static" and leaves:
        s = rng.choice(leaves)
        act = dict(kind=kind, i=s["i"])
        s.update(role="static", token=None, parent=None, ranges=[], single=None)
    elif kind == "to-leaf" and statics:
        s = rng.choice(statics)
        pm = rng.choice(muxes) if ext else root
        rs = leaf_ranges(rng, pm) if ext else []
        tok = rs[0][0] if ext else rng.randrange(rlo, rhi + 1)
        s.update(role="leaf", token=tok, parent=pm["i"], ranges=rs, single=None if rs else tok)
        act = dict(kind=kind, i=s["i"], parent=pm["i"], ranges=rs, token=tok)
    elif kind == "mux-ranges" and ext and [m for m in sigs if m["role"] == "mux"]:
        m = rng.choice([m for m in sigs if m["role"] == "mux"])
        rs = []
        for lo, hi in m["ranges"]:                         # a subset of what it accepted: siblings stay disjoint
            if hi > lo and rng.random() < 0.7:
                lo2 = rng.randrange(lo, hi + 1)
                rs.append((lo2, rng.randrange(lo2, hi + 1)))
            else:
                rs.append((lo, hi))
        if len(rs) > 1 and rng.random() < 0.4:
            rs.pop(rng.randrange(len(rs)))
        if rs == m["ranges"]:
            return None
        m["ranges"] = rs
        m["token"] = rs[0][0]
        act = dict(kind=kind, i=m["i"], ranges=rs, token=m["token"])
    else:
        return None
    if not desc_valid(d2):
        return None
    return d2, act


def apply_live(C, fr, act):
    """the edit through the public API on the live Frame/Signal objects"""
    k = act["kind"]
    if k in ("add-leaf", "add-static"):
        s = act["sig"]
        o = C.Signal(nm(s["i"]), start_bit=s["start"], size=s["size"], is_little_endian=s["le"], is_signed=s["signed"], multiplex=s["token"])
        if s["role"] == "leaf" and s["ranges"]:
            o.muxer_for_signal = nm(s["parent"])
            for lo, hi in s["ranges"]:
                o.mux_val_grp.append([lo, hi])
        elif s["role"] == "leaf" and fr.is_complex_multiplexed:
            o.muxer_for_signal = nm(s["parent"])
        fr.add_signal(o)
        return
    o = fr.signal_by_name(nm(act["i"]))
    if k == "remove":
        fr.signals.remove(o)
    elif k == "rename":
        o.name = nm(act["new"])
    elif k == "to-static":
        o.muxer_for_signal = None
        o.mux_val_grp[:] = []
        o.multiplex = o.multiplex_setter(None)
    elif k in ("rebind", "reparent", "to-leaf"):
        if act.get("parent") is not None and (act["ranges"] or fr.is_complex_multiplexed):
            o.muxer_for_signal = nm(act["parent"])
        if act["ranges"] or o.mux_val_grp:
            o.mux_val_grp[:] = [[lo, hi] for lo, hi in act["ranges"]]
        if act.get("bare"):
            o.multiplex_setter(act["token"])
        else:
            o.multiplex = o.multiplex_setter(act["token"])
    elif k == "mux-ranges":
        o.mux_val_grp[:] = [[lo, hi] for lo, hi in act["ranges"]]
        o.multiplex_setter(act["token"])
        o.is_multiplexer = True                            # as formats/dbc.py does for m<k>M
        o.multiplex = "Multiplexor"


def act_brief(act):
    a = dict(act)
    if "sig" in a:
        s = a.pop("sig")
        a.update(name=nm(s["i"]), role=s["role"], le=s["le"], start=s["start"], size=s["size"], multiplex=s["token"],
                 parent=nm(s["parent"]) if s["parent"] is not None else None, ranges=s["ranges"])
    if "i" in a:
        a["signal"] = nm(a.pop("i"))
    if a.get("parent") is not None and not isinstance(a["parent"], str):
        a["parent"] = nm(a["parent"])
    if "new" in a:
        a["new"] = nm(a["new"])
    return a


def frame_payloads(rng, desc, cap):
    """payloads that reach every group: every selector value of a simple frame; every range boundary of an extended one"""
    b = {s["i"]: s for s in desc["sigs"]}
    out = []
    if not desc["complex"]:
        root = next(s for s in desc["sigs"] if s["role"] == "root")
        lo, hi = raw_range(root["size"], root["signed"])
        for sv in range(lo, hi + 1):
            buf = bytearray(rng.randrange(256) for _ in range(desc["size"]))
            write_raw(buf, root["le"], root["start"], root["size"], sv)
            out.append(bytes(buf))
    else:
        for s in desc["sigs"]:
            if s["parent"] is None:
                continue
            p = b[s["parent"]]
            plo, phi = raw_range(p["size"], p["signed"])
            pts = set()
            for lo, hi in (s["ranges"] or [(s["single"], s["single"])]):
                pts |= {lo - 1, lo, hi, hi + 1}
            for v in sorted(pts):
                if plo <= v <= phi:
                    out.append(chain_payload(rng, desc, p, v))
        for _ in range(3):
            out.append(bytes(rng.randrange(256) for _ in range(desc["size"])))
    if len(out) > cap:
        out = rng.sample(out, cap)
    return out


# ---------- running the implementation ----------
def impl_decode(C, fr, payload):
    try:
        r = fr.decode(bytes(payload))
    except C.DecodingFrameLength:
        return [[0]], None
    except Exception as e:                                  # any other exception is reported as such
        return [[9]], "raise:" + type(e).__name__
    # the property fixes WHICH signals are returned and their values, not the order of the dict (observe_at: set(keys)):
    # canonical form = entries sorted by name, on the implementation side here and on the model side in Run_C03.run_301
    return [[2]] + sorted([idx(k), 1, v.raw_value] for k, v in r.items()), {idx(k): v.raw_value for k, v in r.items()}


def impl_encode(C, fr, data):
    try:
        b = fr.encode(dict(data))
    except C.EncodingComplexMultiplexed:
        return [[0]], None
    except Exception as e:
        return [[9]], "raise:" + type(e).__name__
    return [[1], list(b)], bytes(b)


def run(chk):
    chk.rule = ("simple: frames of 1..16 bytes, multiplexer of width 1..8 at a random placement (12% signed), 0..2 static signals, 0..6 "
                "groups whose members overlap the members of other groups, signal order shuffled; EVERY selector value of the multiplexer "
                "x random payloads; encode->decode round trip for every group, an unused selector value and no selector, with values also "
                "supplied for the other groups.  extended: trees of 1..3 multiplexer levels, 1..3 ranges per signal, leaves overlapping, "
                "built through the API as formats/dbc.py assigns roles AND by loading generated DBC text; payloads put each multiplexer on "
                "every range boundary (min-1, min, max, max+1) of each child with the ancestors selecting it, plus random payloads.  "
                "role histories: on a simply multiplexed frame every signal's role is assigned 1..3 times on the live objects (constructor argument, "
                "s.multiplex_setter(x), s.multiplex = s.multiplex_setter(x), frame.multiplex_signals()) among None / N / 'Multiplexor'; decode for every "
                "selector value and the encode round trip are judged for the FINAL roles and compared with a freshly built frame.  "
                "edit-after-use: a simple or extended frame (API-built or loaded from DBC) is decoded/encoded for every group, then edited in place "
                "1..3 times (re-bind, re-parent, add bound/static signal, remove, rename, bound<->static, narrow a nested multiplexer's ranges) and "
                "used again with the same and new payloads, judged for the edited definition and against a frame built from scratch.  "
                "non-trivial = a selector value no group uses, or >= 2 groups, or a nested multiplexer, or a role history, or a use after an edit; distinct by (frame, payload/data)")
    ok = chk.build_and_audit()
    tr_ok = ok and core.translator_tie(chk, ['gen/Tie_mux.v'], ['gen/Gen_mux.v'])
    cm = core.import_impl()
    C = cm.canmatrix
    import canmatrix.formats
    rng = chk.rng
    thorough = chk.tier == "thorough"
    lines, expect, info, suite = [], [], [], []

    def add(cmd, groups, exp, inf, su):
        lines.append(core.fmt_case(cmd, groups))
        expect.append(exp)
        info.append(inf)
        suite.append(su)

    by = lambda desc: {s["i"]: s for s in desc["sigs"]}

    def check_decode(desc, fr, payload, tag, nontrivial, kp="", extra=None):
        """search: key set and values against the oracle; tie: cmd 301"""
        out, vals = impl_decode(C, fr, payload)
        inp = dict(frame=desc_brief(desc), payload=bytes(payload).hex(), built=tag)
        if extra:
            inp.update(extra)
        chk.case((desc_key(desc), bytes(payload), tag, str(extra)), nontrivial)
        if vals is None or isinstance(vals, str):
            chk.violation(kp + "decode-raises", "decoding a payload of the frame's length raised", inp, None, vals)
        else:
            want = active_set(desc, payload)
            got = set(vals.keys())
            if got != want:
                chk.violation(kp + "decode-keys-%s" % ("extended" if desc["complex"] else "simple"),
                              "decoded key set is not exactly the active signals", inp,
                              sorted(nm(i) for i in want), sorted(nm(i) for i in got))
            b = by(desc)
            for i in got & want:
                s = b[i]
                w = read_raw(payload, s["le"], s["start"], s["size"], s["signed"])
                if vals[i] != w:
                    chk.violation(kp + "decode-value", "an active signal is returned with a wrong value", inp, {nm(i): w}, {nm(i): vals[i]})
        add(301, [[desc["size"], int(fr.is_complex_multiplexed)], list(payload)] + sig_groups(fr), out, inp, "decode")
        return vals

    def check_encode(desc, fr, kp="", extra=None, label="simple"):
        """encode -> decode round trip per group (+ an unused value, + no selector); search + tie (cmd 302)"""
        root = next(s for s in desc["sigs"] if s["role"] == "root")
        lo, hi = raw_range(root["size"], root["signed"])
        used = sorted({s["token"] for s in desc["sigs"] if s["role"] == "leaf"})
        results = []
        unused = [v for v in range(lo, hi + 1) if v not in used]
        sels = list(used) + ([rng.choice(unused)] if unused else []) + [None]
        for sel in sels:
            data = {}
            if sel is not None:
                data[nm(root["i"])] = sel
            for s in desc["sigs"]:
                if s["role"] == "root":
                    continue
                if rng.random() < 0.85:
                    l2, h2 = raw_range(s["size"], s["signed"])
                    data[nm(s["i"])] = rng.choice([l2, h2, 0, rng.randrange(l2, h2 + 1), rng.randrange(l2, h2 + 1)])
            items = list(data.items())
            rng.shuffle(items)
            data = dict(items)
            out, enc = impl_encode(C, fr, data)
            inp = dict(frame=desc_brief(desc), data=data)
            if extra:
                inp.update(extra)
            chk.case((desc_key(desc), tuple(items), str(extra)), True)
            chk.count(label + ": encode %s" % ("no selector" if sel is None else ("group" if sel in used else "unused selector")))
            group = [s for s in desc["sigs"] if s["role"] in ("root", "static") or (s["role"] == "leaf" and sel is not None and s["token"] == sel)]
            if not isinstance(enc, bytes):
                chk.violation(kp + "encode-raises", "encoding representable values for a simply multiplexed frame raised", inp, None, enc)
            else:
                # oracle payload: exactly the supplied signals of the selected group written into zeros
                buf = bytearray(desc["size"])
                for s in group:
                    if nm(s["i"]) in data:
                        write_raw(buf, s["le"], s["start"], s["size"], data[nm(s["i"])])
                if enc != bytes(buf):
                    chk.violation(kp + "encode-group", "encoded payload is not exactly the selected group's supplied values (another group's "
                                  "signal was written or a bit was lost)", inp, bytes(buf).hex(), enc.hex())
                if sel is not None:
                    back = fr.decode(enc)
                    bk = {idx(k): v.raw_value for k, v in back.items()}
                    if set(bk) != {s["i"] for s in group}:
                        chk.violation(kp + "roundtrip-keys", "decode(encode(d)) does not return exactly the selected group", inp,
                                      sorted(nm(s["i"]) for s in group), sorted(nm(i) for i in bk))
                    for s in group:
                        n = nm(s["i"])
                        if n in data and s["i"] in bk and bk[s["i"]] != data[n]:
                            chk.violation(kp + "roundtrip-value", "decode(encode(d)) changed a supplied value of the selected group", inp,
                                          {n: data[n]}, {n: bk[s["i"]]})
            triples = []
            for k, v in data.items():
                triples += [idx(k), 1, v]
            add(302, [[desc["size"], int(fr.is_complex_multiplexed)], triples] + sig_groups(fr), out, inp, "encode")
            results.append((data, out))
        return results

    # ================= simple multiplexing =================
    nsimple = 300 if not thorough else 5000
    for _ in range(nsimple):
        desc = gen_simple(rng)
        fr = build_api(C, desc, dbc_style=rng.random() < 0.5)
        b = by(desc)
        root = next(s for s in desc["sigs"] if s["role"] == "root")
        lo, hi = raw_range(root["size"], root["signed"])
        used = sorted({s["token"] for s in desc["sigs"] if s["role"] == "leaf"})
        ngroups = len(used)
        chk.count("simple: mux width %d" % root["size"])
        chk.count("simple: groups=%d" % ngroups)
        if chk.evaluations == 0:
            chk.sample(dict(kind="simple", frame=desc_brief(desc)))
        npay = 3 if root["size"] <= 4 else (2 if root["size"] <= 6 else 1)
        if thorough:
            npay += 1
        for sv in range(lo, hi + 1):
            for _ in range(npay):
                buf = bytearray(rng.randrange(256) for _ in range(desc["size"]))
                write_raw(buf, root["le"], root["start"], root["size"], sv)
                chk.count("simple: selector %s" % ("used" if sv in used else "unused"))
                check_decode(desc, fr, bytes(buf), "api", ngroups >= 2 or sv not in used)
        frames = [("api", fr)]
        if all(s["token"] is None or s["token"] >= 0 for s in desc["sigs"]) and rng.random() < 0.4:
            # the same frame as DBC text (M / m<k> tokens only): roles must equal the API-built ones, decoding must agree
            text = dbc_text(desc)
            try:
                fr_dbc = canmatrix.formats.loads_flat(text, "dbc").frames[0]
            except Exception as e:
                chk.violation("dbc-load", "generated DBC text of a simply multiplexed frame could not be loaded", dict(text=text), None, "raise:" + type(e).__name__)
                fr_dbc = None
            if fr_dbc is not None:
                chk.count("simple: also loaded from DBC text")
                ref = build_api(C, desc, dbc_style=True)
                if roles_of(ref) != roles_of(fr_dbc) or fr_dbc.is_complex_multiplexed:
                    chk.tie_break("roles api-vs-dbc (simple)", dict(frame=desc_brief(desc), dbc=text), roles_of(ref), roles_of(fr_dbc))
                frames.append(("dbc", fr_dbc))
        for sv in used + unused_sample(rng, lo, hi, used):   # more payloads on the selector values that groups use
            for _ in range(4):
                buf = bytearray(rng.randrange(256) for _ in range(desc["size"]))
                write_raw(buf, root["le"], root["start"], root["size"], sv)
                for tag, f in frames:
                    chk.count("simple: selector %s" % ("used" if sv in used else "unused"))
                    check_decode(desc, f, bytes(buf), tag, True)
        check_encode(desc, fr)
        # wrong length (tie only): DecodingFrameLength
        if rng.random() < 0.3:
            p = bytes(rng.randrange(256) for _ in range(desc["size"] + rng.choice([-1, 1])))
            out, _ = impl_decode(C, fr, p)
            chk.count("malformed: wrong length")
            add(301, [[desc["size"], 0], list(p)] + sig_groups(fr), out, dict(frame=desc_brief(desc), payload=p.hex()), "decode-length")

    # ================= role re-assignment histories (live objects) =================
    nhist = 200 if not thorough else 3000
    for _ in range(nhist):
        desc = gen_simple(rng)
        ctor, ops = gen_history(rng, desc)
        fr, stored_str = run_history(C, desc, ctor, ops)
        fresh = build_api(C, desc, dbc_style=False)
        steps = history_brief(ctor, ops)
        extra = dict(history=steps)
        nas = len(ctor) + sum(1 for o in ops if o[0] != 2)
        chk.count("history: assignments %s" % ("1-4" if nas <= 4 else ("5-9" if nas <= 9 else ("10-19" if nas <= 19 else "20+"))))
        chk.count("history: signals re-assigned", sum(1 for i in range(len(ctor)) if any(o[0] != 2 and o[1] == i for o in ops)))
        chk.count("history: multiplex_signals() calls", sum(1 for o in ops if o[0] == 2))
        if len(chk.samples) < 3:
            chk.sample(dict(kind="role history", history=steps, final=desc_brief(desc)))
        add(307, history_case(desc, ctor, ops), [[0]] if stored_str else history_out(fr), dict(history=steps), "history")
        # the roles that count are the FINAL ones: same role fields as a frame built directly with them
        got_roles = [(s.name, bool(s.is_multiplexer), s.mux_val) for s in fr.signals]
        want_roles = [(nm(s["i"]), s["role"] == "root", s["token"] if s["role"] == "leaf" else None) for s in desc["sigs"]]
        if got_roles != want_roles:
            chk.violation("history-roles", "after re-assigning multiplex roles through the API a signal still carries part of an earlier role",
                          dict(frame=desc_brief(desc), history=steps), want_roles, got_roles)
        root = next(s for s in desc["sigs"] if s["role"] == "root")
        lo, hi = raw_range(root["size"], root["signed"])
        used = sorted({s["token"] for s in desc["sigs"] if s["role"] == "leaf"})
        for sv in list(range(lo, hi + 1)) + used + used:
            buf = bytearray(rng.randrange(256) for _ in range(desc["size"]))
            write_raw(buf, root["le"], root["start"], root["size"], sv)
            chk.count("history: selector %s" % ("used" if sv in used else "unused"))
            vals = check_decode(desc, fr, bytes(buf), "history", True, kp="history-", extra=extra)
            ref, _ = impl_decode(C, fresh, bytes(buf))
            now, _ = impl_decode(C, fr, bytes(buf))
            if ref != now:
                chk.violation("history-vs-fresh-decode", "a frame whose roles were re-assigned decodes differently from a frame built directly "
                              "with the same final roles", dict(frame=desc_brief(desc), history=steps, payload=bytes(buf).hex()), ref, now)
        for data, out in check_encode(desc, fr, kp="history-", extra=extra, label="history"):
            ref, _ = impl_encode(C, fresh, data)
            if ref != out:
                chk.violation("history-vs-fresh-encode", "a frame whose roles were re-assigned encodes differently from a frame built directly "
                              "with the same final roles", dict(frame=desc_brief(desc), history=steps, data=data), ref, out)
    # (histories that call multiplex_signals() while a signal's `multiplex` attribute disagrees with its role are not generated:
    #  what the bookkeeping does with such a signal depends on an attribute the property does not name)
    # ================= in-place edits of a frame that was already used =================
    # one Frame object: decode (and encode) everything, edit the multiplexing structure through the API, use it again.
    # Property: what the frame answers depends on its definition NOW - judged by the oracle on the edited description and
    # compared with a frame built from scratch with that definition.
    nedit = 160 if not thorough else 2500
    for n_ in range(nedit):
        ext = n_ % 5 != 0
        desc = gen_ext(rng, dbc_single=True) if ext else gen_simple(rng)
        if ext and not desc["complex"]:
            ext = False
        how = "api"
        fr = None
        if ext and rng.random() < 0.5:
            try:
                fr = canmatrix.formats.loads_flat(dbc_text(desc), "dbc").frames[0]
                how = "dbc"
            except Exception:
                fr = None
        if fr is None:
            fr = build_api(C, desc, dbc_style=True if ext else rng.random() < 0.5)
        chk.count("edit-after-use: %s frames (%s)" % ("extended" if ext else "simple", how))
        cap = 24 if not thorough else 40
        seen = frame_payloads(rng, desc, cap)
        for pay in seen:                                   # first use: every group is decoded once
            check_decode(desc, fr, pay, "before-edit", True, kp="edit-")
        if not ext:
            check_encode(desc, fr, kp="edit-", label="edit-after-use (before)")
        edits = []
        for _round in range(rng.choice([1, 2, 3])):
            for _ in range(rng.choice([1, 1, 2])):
                pe = None
                for _try in range(8):
                    pe = propose_edit(rng, desc)
                    if pe is not None:
                        break
                if pe is None:
                    continue
                desc, act = pe
                apply_live(C, fr, act)
                edits.append(act_brief(act))
                chk.count("edit-after-use: edit %s" % act["kind"])
            if not edits:
                break
            extra = dict(first_built=how, edits_after_first_use=list(edits))
            fresh = build_api(C, desc, dbc_style=True if ext else False)
            if ext:
                live_roles = [r[:5] + r[5:] for r in roles_of(fr)]
                same_roles = live_roles == roles_of(fresh)
            else:
                same_roles = [(s.name, bool(s.is_multiplexer), s.mux_val) for s in fr.signals] == \
                             [(s.name, bool(s.is_multiplexer), s.mux_val) for s in fresh.signals]
            if not same_roles:
                chk.violation("edit-roles", "after in-place edits the signals do not carry the roles of a frame built directly with the edited definition",
                              dict(frame=desc_brief(desc), **extra), roles_of(fresh), roles_of(fr))
            again = seen + frame_payloads(rng, desc, cap // 2)
            for pay in again:
                chk.count("edit-after-use: payload decoded after an edit")
                check_decode(desc, fr, pay, "edited", True, kp="edit-", extra=extra)
                ref, _ = impl_decode(C, fresh, pay)
                now, _ = impl_decode(C, fr, pay)
                if ref != now:
                    chk.violation("edit-vs-fresh-decode", "a frame edited in place after it had been used decodes differently from a frame built "
                                  "from scratch with the same definition", dict(frame=desc_brief(desc), payload=pay.hex(), **extra), ref, now)
            if not ext:
                for data, out in check_encode(desc, fr, kp="edit-", extra=extra, label="edit-after-use"):
                    ref, _ = impl_encode(C, fresh, data)
                    if ref != out:
                        chk.violation("edit-vs-fresh-encode", "a frame edited in place after it had been used encodes differently from a frame built "
                                      "from scratch with the same definition", dict(frame=desc_brief(desc), data=data, **extra), ref, out)
            seen = again[-cap:]

    # ================= extended multiplexing =================
    next_ = 300 if not thorough else 5000
    built = 0
    while built < next_:
        desc = gen_ext(rng, dbc_single=True)
        built += 1
        b = by(desc)
        fr_api = build_api(C, desc, dbc_style=True)
        text = dbc_text(desc)
        try:
            db = canmatrix.formats.loads_flat(text, "dbc")
            fr_dbc = db.frames[0]
        except Exception as e:
            chk.violation("dbc-load", "generated DBC text with SG_MUL_VAL_ could not be loaded", dict(text=text), None, "raise:" + type(e).__name__)
            fr_dbc = None
        chk.count("extended: depth %d" % desc["depth"])
        chk.count("extended: signals %d" % min(len(desc["sigs"]), 12))
        chk.count("extended: leaves without SG_MUL_VAL_ (single value)", sum(1 for s in desc["sigs"] if s["role"] == "leaf" and not s["ranges"]))
        chk.count("extended: frames that are in fact simple (no SG_MUL_VAL_, no nested multiplexer)", int(not desc["complex"]))
        if built == 1:
            chk.sample(dict(kind="extended", frame=desc_brief(desc), dbc=text))
        if fr_dbc is not None and roles_of(fr_api) != roles_of(fr_dbc):
            chk.tie_break("roles api-vs-dbc", dict(frame=desc_brief(desc), dbc=text), roles_of(fr_api), roles_of(fr_dbc))
        frames = [("api", fr_api)] + ([("dbc", fr_dbc)] if fr_dbc is not None else [])
        # roles as the property describes them: the generator's description
        for tag, fr in frames:
            for s, o in zip(desc["sigs"], fr.signals):
                want_parent = nm(s["parent"]) if s["parent"] is not None else None
                want = (s["role"] in ("root", "mux"), [list(r) for r in s["ranges"]] if s["parent"] is not None else [], want_parent)
                got = (bool(o.is_multiplexer), [list(g) for g in o.mux_val_grp], o.muxer_for_signal)
                single_ok = s["ranges"] or s["single"] is None or o.mux_val == s["single"]
                if got != want or not single_ok or bool(fr.is_complex_multiplexed) != desc["complex"]:
                    chk.violation("roles-%s" % tag, "multiplex roles after set-up are not what SG_MUL_VAL_ describes", dict(frame=desc_brief(desc), dbc=text),
                                  dict(signal=o.name, is_multiplexer=want[0], ranges=want[1], parent=want[2], single=s["single"]),
                                  dict(is_multiplexer=got[0], ranges=got[1], parent=got[2], mux_val=o.mux_val))
            add(304, [[]] + sig_groups(fr), [[1]], dict(frame=desc_brief(desc), built=tag), "wf_extb")
        # payloads: every range boundary of every child, with the chain selecting the parent; plus random ones
        payloads = []
        for s in desc["sigs"]:
            if s["parent"] is None:
                continue
            p = b[s["parent"]]
            plo, phi = raw_range(p["size"], p["signed"])
            pts = set()
            for lo, hi in (s["ranges"] or [(s["single"], s["single"])]):
                pts |= {lo - 1, lo, hi, hi + 1}
            for v in sorted(pts):
                if plo <= v <= phi:
                    payloads.append((chain_payload(rng, desc, p, v), "boundary"))
        for _ in range(4):
            payloads.append((bytes(rng.randrange(256) for _ in range(desc["size"])), "random"))
        if not thorough and len(payloads) > 60:
            payloads = rng.sample(payloads, 60)
        for pay, kind in payloads:
            chk.count("extended: payload %s" % kind)
            for tag, fr in frames:
                vals = check_decode(desc, fr, pay, tag, desc["depth"] >= 2)
                if isinstance(vals, dict):
                    nact = len([i for i in vals if b[i]["role"] == "mux"])
                    if tag == "api":
                        chk.count("extended: nested multiplexers active %d" % nact)
        # encode is refused (tie only)
        for tag, fr in frames[:1]:
            data = {nm(desc["sigs"][0]["i"]): 0}
            out, _ = impl_encode(C, fr, data)
            add(302, [[desc["size"], int(fr.is_complex_multiplexed)], [desc["sigs"][0]["i"], 1, 0]] + sig_groups(fr), out, dict(frame=desc_brief(desc), data=data), "encode-complex")

    # ================= range test =================
    nrange = 400 if not thorough else 4000
    for _ in range(nrange):
        nr = rng.randrange(0, 4)
        grp = []
        for _ in range(nr):
            lo = rng.randrange(-4, 40)
            grp.append([lo, lo + rng.choice([0, 0, 1, 3, 10])])
        mv = rng.choice([None, rng.randrange(-2, 40)])
        s = C.Signal("s0", size=8, multiplex=mv)
        for g in grp:
            s.mux_val_grp.append(list(g))
        pts = {None, mv}
        for lo, hi in grp:
            pts |= {lo - 1, lo, hi, hi + 1}
        pts.add(rng.randrange(-5, 45))
        for v in pts:
            got = bool(s.multiplexer_value_in_range(v))
            if v is None:
                want = None
            elif grp:
                want = any(lo <= v <= hi for lo, hi in grp)
            else:
                want = (mv is not None and v == mv)
            chk.case(("range", tuple(map(tuple, grp)), mv, v), True)
            chk.count("range test: %s" % ("no value" if v is None else ("ranges" if grp else "single value")))
            if want is not None and got != want:
                chk.violation("range-test", "multiplexer_value_in_range is not the inclusive range test", dict(ranges=grp, mux_val=mv, value=v), want, got)
            g = [0, 0, 8, 1, 0, 0, 0, int(mv is not None), mv if mv is not None else 0, 0, 0]
            for lo, hi in grp:
                g += [lo, hi]
            add(303, [[int(v is not None), v if v is not None else 0], g], [[int(got)]], dict(ranges=grp, mux_val=mv, value=v), "range")

    # ================= role bookkeeping (tie only) =================
    for _ in range(150 if not thorough else 1500):
        n = rng.randrange(1, 7)
        toks = [rng.choice([None, None, "Multiplexor", rng.randrange(0, 6), rng.randrange(0, 6)]) for _ in range(n)]
        fr = C.Frame("F", size=8)
        groups = []
        for i, t in enumerate(toks):
            o = C.Signal(nm(i), start_bit=i, size=1, multiplex=t)
            kind = 0 if t is None else (1 if t == "Multiplexor" else 2)
            if i == 0:
                add(306, [[kind, t if kind == 2 else 0]], [[int(bool(o.is_multiplexer)), int(o.mux_val is not None), o.mux_val or 0]], dict(multiplex=t), "setter")
            fr.add_signal(o)
        pre = sig_groups(fr)
        fr.multiplex_signals()
        for i, t in enumerate(toks):
            kind = 0 if t is None else (1 if t == "Multiplexor" else 2)
            groups.append([kind, t if kind == 2 else 0] + pre[i])
        post = [[1]] + [[int(bool(s.is_multiplexer)), int(s.mux_val is not None), s.mux_val or 0,
                         int(s.muxer_for_signal is not None), idx(s.muxer_for_signal) if s.muxer_for_signal is not None else 0] for s in fr.signals]
        chk.count("role bookkeeping")
        add(305, [[]] + groups, post, dict(multiplex=toks), "roles")

    if not ok:
        chk.ties["correspondence"] = "not run (build failed)"
        return
    out = core.run_model(lines)
    bad = {}
    per = {}
    for inf, exp, o, su in zip(info, expect, out, suite):
        per[su] = per.get(su, 0) + 1
        if core.parse_out(o) != exp:
            bad[su] = bad.get(su, 0) + 1
            chk.tie_break("mux-" + su, inf, core.parse_out(o), exp)
    chk.ties["correspondence"] = {"suite": "mux (cmd 301-307)", "cases": len(lines), "per_suite": per, "disagreements": sum(bad.values()),
                                  "disagreements_per_suite": bad}
    idxs = rng.sample(range(len(lines)), min(300, len(lines)))
    shard = []
    for i in idxs:
        c, groups = lines[i].split(" ", 1)
        shard.append((int(c, 16), core.parse_out(groups), expect[i]))
    mm, log = core.coq_shard(shard, "c03")
    chk.ties["vm_compute_shard"] = {"cases": len(shard), "mismatches": mm}
    if mm is None:
        chk.obligation_failures.append("in-Coq shard failed to evaluate")
        chk.build_log = log[-3000:]
    else:
        for i in mm:
            chk.tie_break("mux-shard", shard[i][1], "vm_compute differs", shard[i][2])
