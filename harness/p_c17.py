"""C17: bulk clean-up, delete and rename operations hit exactly their targets.

SEARCH  every generated (matrix, operation) / (matrix, history) is run on the implementation and compared with an oracle
        that is a direct transcription of the property (list comprehensions over the plain description of the matrix;
        glob matching re-implemented by dynamic programming, prefix/suffix by startswith/endswith).  After
        delete_obsolete_defines the result is exported to DBC: no exception, and every attribute in use is written
        together with its definition.
TIE     the same cases through model/BulkOps.v (cmd 1701-1713, extracted driver + in-Coq vm_compute shard), the model's
        glob matcher against fnmatch.fnmatchcase (cmd 1711, exhaustive small domain + random), and the statements'
        right-hand sides (spec_op, cmd 1714) against the Python oracle.
"""
import io
import itertools
import json

import core

LEVEL_NOTE = ("theorems are about model/BulkOps.v + model/Glob_c17.v (Python list.remove by identity, dict deletion, string "
              "slices incl. name[-0:], for/else made explicit); a matrix is a tree (no Signal object shared between frames); "
              "the model's glob patterns have no '[' classes (those are searched with the oracle only); attribute names/values, ECU names and all untouched fields are opaque integers; "
              "the DBC writer itself is not modelled - exportability is tested on the implementation; rename_frame is modelled as it is "
              "with fixes/C17_rename_frame_elif.patch applied (if/elif/elif) - the code without the patch is rename_frame_unfixed "
              "(theorems ..._refuted / ..._partial: exact whenever no frame name contains '*')")

STAR = "*"


# ------------------------------------------------------------------------------------------------------------------
# plain description ("normal form") of a matrix:
#   dict(frames=[[fid, name, attrs, payload, [[sid, name, size, attrs, payload], ...]], ...], ecus=[[e, attrs], ...],
#        free=[signal, ...], fdefs=[[k, v], ...], edefs=..., sdefs=...)      attrs = [[k, v], ...] in dict order
def build(C, nf):
    """build a CanMatrix through the public API; returns db, {our id -> object}, {id(object) -> our id}"""
    db = C.CanMatrix()
    objs, rev = {}, {}

    def mk_signal(s):
        sid, name, size, attrs, payload = s
        sig = C.Signal(name, start_bit=payload >> 1, size=size, is_signed=bool(payload & 1))
        for k, v in attrs:
            sig.add_attribute("XA%d" % k, v)
        objs[("s", sid)] = sig
        rev[id(sig)] = sid
        return sig

    for fid, name, attrs, payload, sigs in nf["frames"]:
        fr = C.Frame(name, arbitration_id=C.ArbitrationId(payload >> 4, False), size=payload & 15)
        for k, v in attrs:
            fr.add_attribute("XA%d" % k, v)
        for s in sigs:
            fr.add_signal(mk_signal(s))
        db.add_frame(fr)
        objs[("f", fid)] = fr
        rev[id(fr)] = fid
    for e, attrs in nf["ecus"]:
        ecu = C.Ecu("E%d" % e)
        for k, v in attrs:
            ecu.add_attribute("XA%d" % k, v)
        db.add_ecu(ecu)
    for s in nf["free"]:
        db.add_signal(mk_signal(s))
    for k, v in nf["fdefs"]:
        db.add_frame_defines("XA%d" % k, "INT 0 %d" % v)
    for k, v in nf["edefs"]:
        db.add_ecu_defines("XA%d" % k, "INT 0 %d" % v)
    for k, v in nf["sdefs"]:
        db.add_signal_defines("XA%d" % k, "INT 0 %d" % v)
    return db, objs, rev


def observe(db, rev):
    def attrs(d):
        return [[int(k[2:]), int(v)] for k, v in d.items()]

    def sig(s):
        return [rev.get(id(s), -1), s.name, s.size, attrs(s.attributes), s.start_bit * 2 + int(bool(s.is_signed))]

    return canon_nf(dict(
        frames=[[rev.get(id(f), -1), f.name, attrs(f.attributes), f.arbitration_id.id * 16 + f.size, [sig(s) for s in f.signals]]
                for f in db.frames],
        ecus=[[int(e.name[1:]), attrs(e.attributes)] for e in db.ecus],
        free=[sig(s) for s in db.signals],
        fdefs=[[int(k[2:]), int(d.max)] for k, d in db.frame_defines.items()],
        edefs=[[int(k[2:]), int(d.max)] for k, d in db.ecu_defines.items()],
        sdefs=[[int(k[2:]), int(d.max)] for k, d in db.signal_defines.items()]))


def canon_nf(nf):
    """dict-like parts (attributes of an object, the three define tables) sorted by key: the property fixes no order for them
    (list-like parts - frames of the matrix, signals of a frame - keep their order)"""
    r = copy_nf(nf)
    for f in r["frames"]:
        f[2].sort()
        for s in f[4]:
            s[3].sort()
    for e in r["ecus"]:
        e[1].sort()
    for s in r["free"]:
        s[3].sort()
    for cat in ("fdefs", "edefs", "sdefs"):
        r[cat].sort()
    return r


def codes(s):
    return [ord(c) for c in s]


def groups_of(nf):
    def flat(attrs):
        return [x for kv in attrs for x in kv]

    def sg(tag, s):
        return [tag, s[0], s[2], s[4], len(s[1])] + codes(s[1]) + flat(s[3])

    g = []
    for fid, name, attrs, payload, sigs in nf["frames"]:
        g.append([1, fid, payload, len(name)] + codes(name) + flat(attrs))
        g += [sg(2, s) for s in sigs]
    g += [[3, e] + flat(a) for e, a in nf["ecus"]]
    g += [[4, k, v] for k, v in nf["fdefs"]]
    g += [[5, k, v] for k, v in nf["edefs"]]
    g += [[6, k, v] for k, v in nf["sdefs"]]
    g += [sg(7, s) for s in nf["free"]]
    return g


def copy_nf(nf):
    return json.loads(json.dumps(nf))


# ------------------------------------------------------------------------------------------------------------------
# the oracle: the property, transcribed
def glob_tokens(pat):
    """pattern -> tokens ('*',) ('?',) ('lit', c) ('set', negated, [single characters], [(lo, hi) ranges]).
    A '[' opens a character class up to the next ']' (a ']' directly after '[' or '[!' is a member); '!' first negates;
    x-y is a range; a '[' without closing ']' is an ordinary character."""
    toks = []
    i, n = 0, len(pat)
    while i < n:
        c = pat[i]
        i += 1
        if c == "*":
            toks.append(("*",))
        elif c == "?":
            toks.append(("?",))
        elif c == "[":
            j = i
            if j < n and pat[j] == "!":
                j += 1
            if j < n and pat[j] == "]":
                j += 1
            while j < n and pat[j] != "]":
                j += 1
            if j >= n:
                toks.append(("lit", "["))
                continue
            body = pat[i:j]
            i = j + 1
            neg = body.startswith("!")
            if neg:
                body = body[1:]
            singles, ranges = [], []
            k = 0
            while k < len(body):
                if k + 2 < len(body) and body[k + 1] == "-":
                    ranges.append((body[k], body[k + 2]))
                    k += 3
                else:
                    singles.append(body[k])
                    k += 1
            toks.append(("set", neg, singles, ranges))
        else:
            toks.append(("lit", c))
    return toks


def glob_oracle(pat, name):
    """'*' any run of characters, '?' exactly one, [..] one character of the class, everything else itself
    (dynamic programming over the tokens; no use of the code under test or of fnmatch)"""
    toks = glob_tokens(pat)
    n, m = len(toks), len(name)
    t = [[False] * (m + 1) for _ in range(n + 1)]
    t[0][0] = True
    for i in range(1, n + 1):
        tok = toks[i - 1]
        for j in range(0, m + 1):
            if tok[0] == "*":
                t[i][j] = t[i - 1][j] or (j > 0 and t[i][j - 1])
            elif j > 0:
                ch = name[j - 1]
                if tok[0] == "?":
                    hit = True
                elif tok[0] == "lit":
                    hit = tok[1] == ch
                else:
                    inside = ch in tok[2] or any(lo <= ch <= hi for lo, hi in tok[3])
                    hit = inside != tok[1]
                t[i][j] = hit and t[i - 1][j - 1]
    return t[n][m]


def rename_oracle(old, new, name):
    if old.endswith("*"):
        p = old[:-1]
        return new + name[len(p):] if name.startswith(p) else name
    if old.startswith("*"):
        s = old[1:]
        return name[:len(name) - len(s)] + new if name.endswith(s) else name
    return new if name == old else name


def oracle(nf, op):
    """expected description after `op`; None when the property is silent (call expected to raise)"""
    r = copy_nf(nf)
    k = op[0]
    if k == "zero":
        for f in r["frames"]:
            f[4] = [s for s in f[4] if s[2] != 0]
    elif k == "obsolete":
        allsig = [s for f in nf["frames"] for s in f[4]] + nf["free"]
        r["fdefs"] = [d for d in nf["fdefs"] if any(d[0] == a[0] for f in nf["frames"] for a in f[2])]
        r["edefs"] = [d for d in nf["edefs"] if any(d[0] == a[0] for e in nf["ecus"] for a in e[1])]
        r["sdefs"] = [d for d in nf["sdefs"] if any(d[0] == a[0] for s in allsig for a in s[3])]
    elif k == "delsig":
        for f in r["frames"]:
            f[4] = [s for s in f[4] if not glob_oracle(op[1], s[1])]
    elif k == "delsigobj":
        for f in r["frames"]:
            f[4] = [s for s in f[4] if s[0] != op[1]]
    elif k == "rensig":
        for f in r["frames"]:
            for s in f[4]:
                s[1] = rename_oracle(op[1], op[2], s[1])
    elif k == "delframe":
        r["frames"] = [f for f in r["frames"] if f[1] != op[1]]
    elif k == "delframeobj":
        if not any(f[0] == op[1] for f in r["frames"]):
            return None
        r["frames"] = [f for f in r["frames"] if f[0] != op[1]]
    elif k == "renframe":
        for f in r["frames"]:
            f[1] = rename_oracle(op[1], op[2], f[1])
    elif k == "delsattrs":
        for f in r["frames"]:
            for s in f[4]:
                s[3] = [a for a in s[3] if a[0] not in op[1]]
    elif k == "delfattrs":
        for f in r["frames"]:
            f[2] = [a for a in f[2] if a[0] not in op[1]]
    else:
        raise ValueError(k)
    return r


def free_projection(nf, op):
    """The statement speaks of the matching objects 'in every frame'.  A signal that belongs to no frame (CanMatrix.signals) and
    matches the call may therefore be treated like the framed ones or be left alone - the property fixes neither; everything
    that does NOT match must stay as it is.  Returns (ids of free signals, attribute keys on free signals) that are left open
    by `op` on matrix `nf`, or None when nothing is."""
    k = op[0]
    ids, keys = set(), set()
    if k == "delsig":
        ids = {s[0] for s in nf["free"] if glob_oracle(op[1], s[1])}
    elif k == "delsigobj":
        ids = {s[0] for s in nf["free"] if s[0] == op[1]}
    elif k == "rensig":
        ids = {s[0] for s in nf["free"] if rename_oracle(op[1], op[2], s[1]) != s[1]}
    elif k == "delsattrs":
        keys = {a[0] for s in nf["free"] for a in s[3] if a[0] in op[1]}
    return (ids, keys) if ids or keys else None


def project_free(nf, proj):
    r = copy_nf(nf)
    r["free"] = [s for s in r["free"] if s[0] not in proj[0]]
    for s in r["free"]:
        s[3] = [a for a in s[3] if a[0] not in proj[1]]
    return r


def project_free_groups(groups, proj):
    """the same projection on the model's answer (groups of tag 7 = free signals: [7, sid, size, payload, n, name.., k, v, ..])"""
    out = []
    for g in groups:
        if g and g[0] == 7:
            if g[1] in proj[0]:
                continue
            n = g[4]
            head, rest = g[:5 + n], g[5 + n:]
            pairs = [rest[i:i + 2] for i in range(0, len(rest), 2)]
            g = head + [x for kv in pairs if kv[0] not in proj[1] for x in kv]
        out.append(g)
    return out


def in_envelope(nf, op):
    """the property's quantifier: unique frame names, unique signal names per frame, non-empty names and patterns"""
    fn = [f[1] for f in nf["frames"]]
    if len(set(fn)) != len(fn) or "" in fn:
        return False
    for f in nf["frames"]:
        sn = [s[1] for s in f[4]]
        if len(set(sn)) != len(sn) or "" in sn:
            return False
    if op[0] in ("delsig", "delframe") and op[1] == "":
        return False
    if op[0] in ("rensig", "renframe") and (op[1] == "" or op[2] == ""):
        return False
    if op[0] == "delframeobj" and not any(f[0] == op[1] for f in nf["frames"]):
        return False                      # a Frame object that is not in the matrix: no name, no pattern, nothing the property speaks of
    return True


def apply_impl(C, db, objs, op):
    """returns None or the exception's class name"""
    k = op[0]
    try:
        if k == "zero":
            db.delete_zero_signals()
        elif k == "obsolete":
            db.delete_obsolete_defines()
        elif k == "delsig":
            db.del_signal(op[1])
        elif k == "delsigobj":
            db.del_signal(objs.get(("s", op[1])) or C.Signal("foreign", size=0))
        elif k == "rensig":
            db.rename_signal(op[1], op[2])
        elif k == "delframe":
            db.del_frame(op[1])
        elif k == "delframeobj":
            db.del_frame(objs.get(("f", op[1])) or C.Frame("foreign"))
        elif k == "renframe":
            db.rename_frame(op[1], op[2])
        elif k == "delsattrs":
            db.del_signal_attributes(["XA%d" % a for a in op[1]])
        elif k == "delfattrs":
            db.del_frame_attributes(["XA%d" % a for a in op[1]])
        else:
            raise ValueError(k)
    except (IndexError, ValueError, KeyError) as e:
        return type(e).__name__
    return None


CMD = dict(zero=1701, obsolete=1702, delsig=1703, delsigobj=1704, rensig=1705, delframe=1706, delframeobj=1707,
           renframe=1708, delsattrs=1709, delfattrs=1710)
KEY = dict(zero="zero-signals", obsolete="obsolete-defines", delsig="del-signal-glob", delsigobj="del-signal-object",
           rensig="rename-signal", delframe="del-frame-name", delframeobj="del-frame-object", renframe="rename-frame",
           delsattrs="del-signal-attributes", delfattrs="del-frame-attributes")
WHAT = dict(zero="delete_zero_signals did not remove exactly the zero-width signals",
            obsolete="delete_obsolete_defines did not remove exactly the unused definitions",
            delsig="del_signal(pattern) did not delete exactly the matching signals in every frame",
            delsigobj="del_signal(object) did not delete exactly that signal",
            rensig="rename_signal did not rename exactly the matching signals",
            delframe="del_frame(name) did not delete exactly the frame of that name",
            delframeobj="del_frame(object) did not delete exactly that frame",
            renframe="rename_frame did not rename exactly the matching frames",
            delsattrs="del_signal_attributes did not delete exactly the named attributes",
            delfattrs="del_frame_attributes did not delete exactly the named attributes")


def op_groups(op):
    """argument groups of the single-call command"""
    k = op[0]
    if k in ("zero", "obsolete"):
        return []
    if k in ("delsig", "delframe"):
        return [codes(op[1])]
    if k in ("delsigobj", "delframeobj"):
        return [[op[1]]]
    if k in ("rensig", "renframe"):
        return [codes(op[1]), codes(op[2])]
    return [list(op[1])]


def op_history_group(op):
    k = op[0]
    code = CMD[k] - 1700
    if k in ("zero", "obsolete"):
        return [code]
    if k in ("delsig", "delframe"):
        return [code] + codes(op[1])
    if k in ("rensig", "renframe"):
        return [code, len(op[1])] + codes(op[1]) + codes(op[2])
    return [code] + list(op[1])


def export_problem(C, formats, nf_after, db):
    """exports db to DBC (this may normalise names in db: call it last).  Returns a description of what is wrong or None."""
    try:
        b = io.BytesIO()
        formats.dump(db, b, "dbc")
        txt = b.getvalue().decode("iso-8859-1")
    except Exception as e:                                   # noqa: any exception = not exportable
        return "export raised %s: %s" % (type(e).__name__, e)
    lines = txt.splitlines()
    want = {}
    for f in nf_after["frames"]:
        for a in f[2]:
            want[("BO_", "XA%d" % a[0])] = want.get(("BO_", "XA%d" % a[0]), 0) + 1
        for s in f[4]:
            for a in s[3]:
                want[("SG_", "XA%d" % a[0])] = want.get(("SG_", "XA%d" % a[0]), 0) + 1
    for s in nf_after["free"]:
        for a in s[3]:
            want[("SG_", "XA%d" % a[0])] = want.get(("SG_", "XA%d" % a[0]), 0) + 1
    for e in nf_after["ecus"]:
        for a in e[1]:
            want[("BU_", "XA%d" % a[0])] = want.get(("BU_", "XA%d" % a[0]), 0) + 1
    for (cat, name), n in sorted(want.items()):
        if not any(l.startswith('BA_DEF_ %s  "%s"' % (cat, name)) or l.startswith('BA_DEF_ %s "%s"' % (cat, name)) for l in lines):
            return "attribute %s in use but no BA_DEF_ %s written" % (name, cat)
        got = sum(1 for l in lines if l.startswith('BA_ "%s" %s ' % (name, cat)))
        if got != n:
            return "attribute %s used by %d %s object(s) but %d BA_ line(s) written" % (name, n, cat, got)
    return None


# ------------------------------------------------------------------------------------------------------------------
# generators
def gen_name(rng, alpha, used=None, maxlen=3):
    for _ in range(100):
        n = "".join(rng.choice(alpha) for _ in range(rng.randrange(1, maxlen + 1)))
        if used is None or n not in used:
            if used is not None:
                used.add(n)
            return n
    n = "".join(rng.choice(alpha) for _ in range(maxlen + 3))
    if used is not None:
        used.add(n)
    return n


def gen_attrs(rng, nkeys, p):
    ks = [k for k in range(nkeys) if rng.random() < p]
    rng.shuffle(ks)
    return [[k, rng.randrange(100)] for k in ks]


def gen_matrix(rng, stream):
    """stream: 'plain' (names over a,b[,c]), 'star' (names may contain '*'), 'dup' (duplicate names allowed: outside the
    property's envelope, used for the tie only)"""
    alpha = rng.choice(["ab", "ab", "abc"]) + ("*" if stream == "star" else "")
    nk = 4
    p_attr = rng.choice([0.15, 0.3, 0.5])
    sid = itertools.count(1)
    frames = []
    fnames = set()
    for i in range(rng.choice([0, 1, 2, 2, 3, 3, 4])):
        name = gen_name(rng, alpha, None if stream == "dup" else fnames)
        snames = set()
        sigs = []
        zero_bias = rng.choice([0.2, 0.5, 0.8])
        for _ in range(rng.choice([0, 1, 2, 3, 3, 4, 5, 6])):
            sn = gen_name(rng, alpha, None if stream == "dup" else snames)
            size = 0 if rng.random() < zero_bias else rng.choice([1, 4, 8])
            sigs.append([next(sid), sn, size, gen_attrs(rng, nk, p_attr), rng.randrange(112)])
        frames.append([i + 1, name, gen_attrs(rng, nk, p_attr), (0x100 + i) * 16 + rng.choice([1, 8]), sigs])
    ecus = [[e, gen_attrs(rng, nk, p_attr)] for e in range(rng.choice([0, 1, 2, 3]))]
    free = [[next(sid), gen_name(rng, alpha), rng.choice([0, 4]), gen_attrs(rng, nk, p_attr), rng.randrange(112)]
            for _ in range(rng.choice([0, 0, 1, 2]))]
    p_def = rng.choice([0.6, 0.9, 1.0])

    def defs():
        ks = [k for k in range(nk + 1) if rng.random() < p_def]
        rng.shuffle(ks)
        return [[k, rng.randrange(1, 200)] for k in ks]
    return dict(frames=frames, ecus=ecus, free=free, fdefs=defs(), edefs=defs(), sdefs=defs())


def mutate_name_to_glob(rng, name):
    out = []
    for c in name:
        r = rng.random()
        out.append("?" if r < 0.2 else ("*" if r < 0.35 else c))
    if rng.random() < 0.2:
        out.insert(rng.randrange(len(out) + 1), "*")
    return "".join(out)


def char_class(rng, c):
    """a [..] class built around character c of a name: sometimes containing it, sometimes not"""
    r = rng.random()
    other = rng.choice("abc")
    if r < 0.35:
        return "[%s%s]" % (c, other) if rng.random() < 0.5 else "[%s%s]" % (other, c)
    if r < 0.55:
        return "[a-%s]" % rng.choice("abc")
    if r < 0.8:
        return "[!%s]" % other
    return "[%s]" % other


def gen_glob(rng, names):
    r = rng.random()
    if names and r < 0.15:
        # a character-class pattern, mostly WITHOUT '*' and '?' (fnmatch treats it as a pattern all the same)
        name = rng.choice(names)
        k = rng.randrange(len(name))
        if name[k] not in "*?[]!-":
            pat = name[:k] + char_class(rng, name[k]) + name[k + 1:]
            if rng.random() < 0.25:
                pat = pat + "*" if rng.random() < 0.5 else "?" + pat[1:] if k > 0 else pat
            return pat
    if names and r < 0.65:
        return mutate_name_to_glob(rng, rng.choice(names))
    return gen_name(rng, "ab*?", maxlen=4)


def gen_rename_args(rng, names, stream):
    alpha = "ab" + ("*" if stream == "star" else "")
    r = rng.random()
    base = rng.choice(names) if names and rng.random() < 0.8 else gen_name(rng, alpha)
    if r < 0.25:
        old = base
    elif r < 0.5:
        old = base[:rng.randrange(0, len(base) + 1)] + "*"
    elif r < 0.75:
        old = "*" + base[rng.randrange(0, len(base) + 1):]
    elif r < 0.8:
        old = "*"
    elif r < 0.85:
        old = "*" + base + "*"
    elif r < 0.9:
        old = gen_name(rng, "ab*", maxlen=3)
    else:
        old = base if rng.random() < 0.5 else gen_name(rng, alpha)
    # new names: often a prefix/suffix of the old pattern so that the renamed object resembles the pattern again
    r = rng.random()
    if r < 0.3 and len(old) > 1:
        new = old.strip("*")[:rng.randrange(1, 3)] or "a"
    elif r < 0.4 and stream == "star":
        new = gen_name(rng, alpha, maxlen=2)
    else:
        new = gen_name(rng, "abx", maxlen=2)
    return old, new


def all_names(nf, what):
    if what == "frame":
        return [f[1] for f in nf["frames"]]
    return [s[1] for f in nf["frames"] for s in f[4]]


def gen_op(rng, nf, stream, kinds):
    k = rng.choice(kinds)
    if k in ("zero", "obsolete"):
        return (k,)
    if k == "delsig":
        return (k, gen_glob(rng, all_names(nf, "signal")))
    if k == "delsigobj":
        ids = [s[0] for f in nf["frames"] for s in f[4]] + [s[0] for s in nf["free"]]
        return (k, rng.choice(ids) if ids and rng.random() < 0.9 else 9999)
    if k == "rensig":
        return (k,) + gen_rename_args(rng, all_names(nf, "signal"), stream)
    if k == "delframe":
        names = all_names(nf, "frame")
        if names and rng.random() < 0.7:
            n = rng.choice(names)
            r = rng.random()
            return (k, n if r < 0.7 else (n[:-1] or "a") if r < 0.85 else n + "a")
        return (k, gen_name(rng, "ab*" if stream == "star" else "ab"))
    if k == "delframeobj":
        ids = [f[0] for f in nf["frames"]]
        return (k, rng.choice(ids) if ids and rng.random() < 0.85 else 9999)
    if k == "renframe":
        return (k,) + gen_rename_args(rng, all_names(nf, "frame"), stream)
    ks = [a for a in range(5) if rng.random() < 0.4]
    if rng.random() < 0.2:
        ks = ks + ks[:1]
    return (k, ks)


SINGLE_KINDS = ["zero", "obsolete", "delsig", "delsigobj", "rensig", "delframe", "delframeobj", "renframe", "delsattrs", "delfattrs"]
HISTORY_KINDS = ["zero", "obsolete", "delsig", "rensig", "delframe", "renframe", "delsattrs", "delfattrs"]


def corpus():
    """minimal shapes of every failure this check has ever produced; they run first"""
    def s(i, name, size=1, attrs=()):
        return [i, name, size, [list(a) for a in attrs], 0]

    def m(frames, ecus=(), free=(), fdefs=(), edefs=(), sdefs=()):
        return dict(frames=[[i + 1, n, [list(a) for a in at], (0x100 + i) * 16 + 8, sg] for i, (n, at, sg) in enumerate(frames)],
                    ecus=[[e, [list(a) for a in at]] for e, at in ecus], free=list(free),
                    fdefs=[list(d) for d in fdefs], edefs=[list(d) for d in edefs], sdefs=[list(d) for d in sdefs])
    return [
        (m([("a", (), [s(1, "a", 0), s(2, "b", 0)])]), [("zero",)]),                        # adjacent zero-width signals
        (m([("a", (), [s(1, "a", 0), s(2, "b", 0), s(3, "c", 0), s(4, "d", 1), s(5, "e", 0)])]), [("zero",)]),
        (m([("a", (), [s(1, "a", 1, [(0, 1)])]), ("b", (), [])], sdefs=[(0, 5)]), [("obsolete",)]),   # used in frame a, frame b has none
        (m([("a", (), [s(1, "a", 1, [(0, 1)])]), ("b", (), [s(2, "a", 1)])], sdefs=[(0, 5)]), [("obsolete",)]),
        (m([], sdefs=[(0, 5)], fdefs=[(1, 2)], edefs=[(1, 2)]), [("obsolete",)]),                # no frames: everything unused
        (m([("a", (), [])], free=[s(1, "f", 4, [(0, 1)])], sdefs=[(0, 5), (1, 6)]), [("obsolete",)]),  # used by a free signal only
        (m([("a", [(0, 1)], [])], ecus=[(0, [(1, 1)])], fdefs=[(0, 5), (1, 5)], edefs=[(0, 5), (1, 5)]), [("obsolete",)]),
        (m([("a*", (), [])]), [("renframe", "a*", "a")]),                                     # frame named like the pattern
        (m([("abb*", (), []), ("q", (), [])]), [("renframe", "ab*", "a")]),
        (m([("**", (), [])]), [("renframe", "**", "x")]),
        (m([("ab", (), []), ("b", (), [])]), [("renframe", "*", "x")]),
        (m([("ab", (), []), ("cab", (), []), ("abc", (), [])]), [("renframe", "*ab", "x"), ("renframe", "x*", "ab")]),
        (m([("a", (), [s(1, "ab"), s(2, "abc"), s(3, "cab")]), ("b", (), [s(4, "ab"), s(5, "b")])]), [("rensig", "ab*", "x"), ("rensig", "*b", "y")]),
        (m([("a", (), [s(1, "ab"), s(2, "abc"), s(3, "cab")]), ("b", (), [s(4, "ab"), s(5, "b")])]), [("delsig", "a*"), ("delsig", "?")]),
        (m([("a", (), [s(1, "a*")])]), [("rensig", "a*", "a")]),
    ]


# ------------------------------------------------------------------------------------------------------------------
def run(chk):
    chk.rule = ("matrices of 0-4 frames x 0-6 signals (zero-width with probability .2/.5/.8 per frame, so adjacent ones are frequent), "
                "0-3 ECUs, 0-2 free signals, 4 attribute names per category used with probability .15/.3/.5 per object and defined with "
                "probability .6/.9/1; names of 1-3 characters over {a,b[,c]} (stream 'star': also '*'); a history ends where it would leave the quantifier (a rename produced "
                "duplicate names, an empty name or pattern, a Frame object that is not in the matrix) - nothing outside it is run, judged or tied; "
                "dict-like parts (attributes, define tables) and lookup results are compared without order; patterns derived from existing names (prefix*, *suffix, ?, *) or random over {a,b,*,?}; single calls of all ten "
                "operations and histories of 2-5 operations; all zero/non-zero width vectors up to length 6; the corpus of minimal shapes "
                "first.  non-trivial = the operation changes the matrix (for histories: at least two steps do); distinct by "
                "(matrix, operations)")
    ok = chk.build_and_audit()
    cm = core.import_impl()
    C = cm.canmatrix
    import canmatrix.formats as formats
    import fnmatch
    rng = chk.rng
    thorough = chk.tier == "thorough"

    lines, expect, info = [], [], []
    spec_lines, spec_expect, spec_info = [], [], []

    def add_model(cmd, groups, exp, inf):
        lines.append(core.fmt_case(cmd, groups))
        expect.append(exp)
        info.append(inf)

    def run_history(nf0, ops, stream, record=True):
        """runs ops on a fresh build of nf0.  Returns (violation key or None, detail) - also registers model cases."""
        db, objs, rev = build(C, nf0)
        nf0 = canon_nf(nf0)               # what the oracle and the model see (the implementation was built in generated order)
        cur = copy_nf(nf0)
        found = None
        searching = True
        open_choice = []
        changed_steps = 0
        final = None
        for step, op in enumerate(ops):
            if not in_envelope(cur, op):
                # the history has left the property's quantifier (duplicate or empty names, empty pattern, foreign object):
                # what the code does from here on is neither judged nor tied - the history ends before this call
                ops = ops[:step]
                if record:
                    chk.count("history-cut-at-quantifier-boundary")
                break
            exc = apply_impl(C, db, objs, op)
            after = observe(db, rev)
            if exc is not None:
                final = "raise"
                if searching and in_envelope(cur, op) and oracle(cur, op) is not None and found is None:
                    found = (KEY[op[0]] + "-raises", "%s raised %s" % (op[0], exc), dict(step=step, op=op, before=cur), "no exception", exc)
                break
            if searching and in_envelope(cur, op):
                exp = oracle(cur, op)
                if exp is not None:
                    if exp != cur:
                        changed_steps += 1
                    proj = free_projection(cur, op)
                    if after != exp and proj is not None and project_free(after, proj) == project_free(exp, proj):
                        # the implementation also handled matching signals that are in no frame: left open by the property
                        open_choice.append(proj)
                        if record:
                            chk.count("free-signal-choice-taken")
                    elif after != exp and found is None:
                        key = KEY[op[0]]
                        if op[0] == "renframe" and (any("*" in f[1] for f in cur["frames"]) or "*" in op[2]):
                            key = "rename-frame-star-in-name"
                        found = (key, WHAT[op[0]], dict(step=step, op=op, before=cur), exp, after)
            else:
                searching = False
            cur = after
        if final is None:
            final = cur
        bracket = any(o[0] == "delsig" and "[" in o[1] for o in ops)
        if record and bracket:
            chk.count("searched-not-tied-bracket-pattern")      # model/Glob_c17.v has no character classes
        if record and open_choice and len(ops) > 1:
            chk.count("history-not-tied-after-free-signal-choice")   # later steps (obsolete defines) depend on the choice taken
        if record and ops and not bracket and not (open_choice and len(ops) > 1):
            exp_out = [[0]] if final == "raise" else [[1]] + groups_of(final)
            if len(ops) == 1 and open_choice:
                # model and implementation are compared modulo the open choice (same projection on both answers)
                add_model(CMD[ops[0][0]], op_groups(ops[0]) + groups_of(nf0), [[1]] + groups_of(project_free(final, open_choice[0])),
                          dict(matrix=nf0, op=ops[0], free_projection=[sorted(open_choice[0][0]), sorted(open_choice[0][1])]))
            elif len(ops) == 1:
                add_model(CMD[ops[0][0]], op_groups(ops[0]) + groups_of(nf0), exp_out, dict(matrix=nf0, op=ops[0]))
            else:
                add_model(1712, [[len(ops)]] + [op_history_group(o) for o in ops] + groups_of(nf0), exp_out, dict(matrix=nf0, ops=ops))
            # the statements' right-hand side (spec_op) against the oracle, inside the envelope
            if stream != "dup" and final != "raise":
                c2 = copy_nf(nf0)
                good = True
                for op in ops:
                    if op[0] in ("delsigobj", "delframeobj") or not in_envelope(c2, op):
                        good = False
                        break
                    c2 = oracle(c2, op)
                if good:
                    spec_lines.append(core.fmt_case(1714, [[len(ops)]] + [op_history_group(o) for o in ops] + groups_of(nf0)))
                    spec_expect.append([[1]] + groups_of(c2))
                    spec_info.append(dict(matrix=nf0, ops=ops))
        # exportability after delete_obsolete_defines (last: the DBC writer normalises names in place)
        if found is None and final != "raise" and ops and ops[-1][0] == "obsolete" and stream != "dup":
            if all(f[1] for f in final["frames"]) and all(s[1] for f in final["frames"] for s in f[4]):
                # baseline: the same matrix with every definition present must be exportable, else the case says nothing
                base = copy_nf(final)
                for cat in ("fdefs", "edefs", "sdefs"):
                    have = {d[0] for d in base[cat]}
                    base[cat] = base[cat] + [[k, 1] for k in range(6) if k not in have]
                bdb, _, _ = build(C, base)
                if export_problem(C, formats, base, bdb) is None:
                    # attributes in use whose definition was never there are not this operation's business
                    used_undefined = False
                    for cat, getter in (("fdefs", lambda n: [a[0] for f in n["frames"] for a in f[2]]),
                                        ("edefs", lambda n: [a[0] for e in n["ecus"] for a in e[1]]),
                                        ("sdefs", lambda n: [a[0] for f in n["frames"] for s in f[4] for a in s[3]] + [a[0] for s in n["free"] for a in s[3]])):
                        defined0 = {d[0] for d in nf0[cat]}
                        if any(k not in defined0 for k in getter(final)):
                            used_undefined = True
                    if not used_undefined:
                        if record:
                            chk.count("export-checked")
                        prob = export_problem(C, formats, final, db)
                        if prob is not None:
                            found = ("export-after-obsolete-defines", "matrix no longer exportable to DBC after delete_obsolete_defines",
                                     dict(ops=ops, before=nf0), "every attribute in use written with its definition", prob)
        return found, changed_steps

    def shrink(nf0, ops, key, stream):
        """greedy: drop operations, frames, signals, ECUs, free signals, defines, attributes while the same failure persists"""
        def fails(n, o):
            try:
                f, _ = run_history(n, o, stream, record=False)
            except Exception:
                return False
            return f is not None and f[0] == key
        nf0 = copy_nf(nf0)
        ops = list(ops)
        progress = True
        budget = 400
        while progress and budget > 0:
            progress = False
            cands = []
            for i in range(len(ops)):
                if len(ops) > 1:
                    cands.append((nf0, ops[:i] + ops[i + 1:]))
            for cat in ("frames", "ecus", "free", "fdefs", "edefs", "sdefs"):
                for i in range(len(nf0[cat])):
                    n = copy_nf(nf0)
                    del n[cat][i]
                    cands.append((n, ops))
            for fi, f in enumerate(nf0["frames"]):
                for si in range(len(f[4])):
                    n = copy_nf(nf0)
                    del n["frames"][fi][4][si]
                    cands.append((n, ops))
                for ai in range(len(f[2])):
                    n = copy_nf(nf0)
                    del n["frames"][fi][2][ai]
                    cands.append((n, ops))
                for si, s in enumerate(f[4]):
                    for ai in range(len(s[3])):
                        n = copy_nf(nf0)
                        del n["frames"][fi][4][si][3][ai]
                        cands.append((n, ops))
            for fi, f in enumerate(nf0["frames"]):                 # shorter names
                for ci in range(len(f[1])):
                    if len(f[1]) > 1:
                        n = copy_nf(nf0)
                        n["frames"][fi][1] = f[1][:ci] + f[1][ci + 1:]
                        cands.append((n, ops))
                for si, s in enumerate(f[4]):
                    for ci in range(len(s[1])):
                        if len(s[1]) > 1:
                            n = copy_nf(nf0)
                            n["frames"][fi][4][si][1] = s[1][:ci] + s[1][ci + 1:]
                            cands.append((n, ops))
            for cat, idx in (("ecus", 1), ("free", 3)):
                for oi, o in enumerate(nf0[cat]):
                    for ai in range(len(o[idx])):
                        n = copy_nf(nf0)
                        del n[cat][oi][idx][ai]
                        cands.append((n, ops))
            for n, o in cands:
                budget -= 1
                if budget <= 0:
                    break
                if fails(n, o):
                    nf0, ops = n, o
                    progress = True
                    break
        return nf0, ops

    shrunk = {}

    known_keys = {k.get("key") for k in chk.known}

    def explore(nf0, ops, stream):
        n_model = len(lines)
        found, changed = run_history(nf0, ops, stream)
        if found is not None and found[0] in known_keys:
            # a recorded finding: the model follows the specified behaviour there, the implementation knowingly does not
            del lines[n_model:], expect[n_model:], info[n_model:]
            chk.count("tie-skipped-known-finding")
        canon = json.dumps([nf0, ops], sort_keys=True)
        nontrivial = changed >= (1 if len(ops) == 1 else 2)
        chk.case(canon, nontrivial)
        chk.count("stream-" + stream)
        for o in ops:
            chk.count("op-" + o[0])
        chk.count("history-len-%d" % len(ops))
        chk.count("changes-matrix" if changed else "no-change")
        if found is not None:
            key, what, inp, exp, obs = found
            if shrunk.get(key, 0) < 2:
                shrunk[key] = shrunk.get(key, 0) + 1
                n2, o2 = shrink(nf0, ops, key, stream)
                f2, _ = run_history(n2, o2, stream, record=False)
                if f2 is not None and f2[0] == key:
                    key, what, inp, exp, obs = f2
                    inp = dict(inp, matrix=n2, operations=o2, note="shrunk from a generated case")
            inp = dict(inp, encoding="frames=[id,name,attrs,payload,[signals: id,name,size,attrs,payload]]; replay: harness/p_c17.py build()+apply_impl()")
            chk.violation(key, what, inp, exp, obs)

    # ---- corpus first ----
    for nf0, ops in corpus():
        stream = "star" if any("*" in f[1] for f in nf0["frames"]) or any("*" in s[1] for f in nf0["frames"] for s in f[4]) else "plain"
        for op in ops:
            explore(nf0, [op], stream)
        if len(ops) > 1:
            explore(nf0, ops, stream)
    chk.count("corpus", len(corpus()))

    # ---- every zero / non-zero width vector up to length 6, in one or two frames ----
    for n in range(0, 7):
        for bits in itertools.product([0, 1], repeat=n):
            sigs = [[i + 1, "s%d" % i, 0 if b == 0 else 3, [], 2 * i] for i, b in enumerate(bits)]
            nf0 = dict(frames=[[1, "f", [], 0x1008, sigs], [2, "g", [], 0x1018, [[100 + s[0]] + s[1:] for s in sigs[::-1]]]],
                       ecus=[], free=[[99, "z", 0, [], 0]], fdefs=[], edefs=[], sdefs=[])
            explore(nf0, [("zero",)], "plain")
    chk.exhaustive = False

    # ---- random single operations ----
    n_single = 12000 if not thorough else 150000
    streams = ["plain"] * 7 + ["star"] * 2 + ["plain"]
    for _ in range(n_single):
        stream = rng.choice(streams)
        nf0 = gen_matrix(rng, stream)
        op = gen_op(rng, nf0, stream, SINGLE_KINDS)
        if len(chk.samples) < 3 and op[0] in ("rensig", "delsig") and len(nf0["frames"]) >= 2:
            chk.sample(dict(matrix=nf0, op=op))
        explore(nf0, [op], stream)
    # ---- histories ----
    n_hist = 5000 if not thorough else 60000
    for _ in range(n_hist):
        stream = rng.choice(streams)
        nf0 = gen_matrix(rng, stream)
        ops = []
        cur = nf0
        for _ in range(rng.randrange(2, 6)):
            op = gen_op(rng, cur, stream, HISTORY_KINDS)
            ops.append(op)
            nxt = oracle(cur, op)
            cur = nxt if nxt is not None else cur
        if len(chk.samples) < 5:
            chk.sample(dict(matrix=nf0, history=ops))
        explore(nf0, ops, stream)

    # ---- glob: model vs fnmatch.fnmatchcase (and the oracle vs fnmatch, to validate the oracle) ----
    glob_lines, glob_expect, glob_info = [], [], []
    pairs = []
    for ln in range(0, 5):
        for name in itertools.product("ab", repeat=ln):
            for lp in range(0, 4 if not thorough else 5):
                for pat in itertools.product("ab*?", repeat=lp):
                    pairs.append(("".join(pat), "".join(name)))
    for _ in range(6000 if not thorough else 60000):
        name = "".join(rng.choice("abc\n*?") for _ in range(rng.randrange(0, 8)))
        pat = "".join(rng.choice("aabbc*?") for _ in range(rng.randrange(0, 7)))
        pairs.append((pat, name))
    oracle_bad = 0
    # the oracle's reading of character classes, validated against the standard library (these pairs do not go to the model)
    nclass = 0
    for _ in range(3000 if not thorough else 30000):
        name = "".join(rng.choice("abc") for _ in range(rng.randrange(0, 5)))
        pat = "".join(rng.choice(["a", "b", "c", "*", "?", "[ab]", "[!a]", "[a-b]", "[b-c]", "[c]", "[!bc]", "[", "[]a]", "[!]a]"])
                      for _ in range(rng.randrange(1, 5)))
        nclass += 1
        r = fnmatch.fnmatchcase(name, pat)
        if glob_oracle(pat, name) != r:
            oracle_bad += 1
            chk.tie_break("glob-oracle-vs-fnmatch", dict(pattern=pat, name=name), glob_oracle(pat, name), r)
    chk.count("glob-class-pairs-oracle-vs-fnmatch", nclass)
    for pat, name in pairs:
        r = fnmatch.fnmatchcase(name, pat)
        if glob_oracle(pat, name) != r:
            oracle_bad += 1
            chk.tie_break("glob-oracle-vs-fnmatch", dict(pattern=pat, name=name), glob_oracle(pat, name), r)
        glob_lines.append(core.fmt_case(1711, [codes(pat), codes(name)]))
        glob_expect.append([[int(r)]])
        glob_info.append(dict(pattern=pat, name=name))
    chk.count("glob-pairs", len(pairs))
    chk.count("glob-pairs-matching", sum(e[0][0] for e in glob_expect))
    # glob_frames / glob_signals
    for _ in range(300 if not thorough else 3000):
        nf0 = gen_matrix(rng, rng.choice(["plain", "star"]))
        pf, ps = gen_glob(rng, all_names(nf0, "frame")), gen_glob(rng, all_names(nf0, "signal"))
        db, objs, rev = build(C, nf0)
        gf = [rev[id(f)] for f in db.glob_frames(pf)]
        gs = [rev[id(s)] for f in db.frames for s in f.glob_signals(ps)]
        gf, gs = sorted(gf), sorted(gs)   # the property fixes no order of a lookup result: compared as sets (ids are distinct)
        if gf != sorted(f[0] for f in nf0["frames"] if glob_oracle(pf, f[1])) or gs != sorted(s[0] for f in nf0["frames"] for s in f[4] if glob_oracle(ps, s[1])):
            chk.violation("glob-lookup", "glob_frames/glob_signals did not return exactly the matching objects",
                          dict(matrix=nf0, frame_pattern=pf, signal_pattern=ps), None, dict(frames=gf, signals=gs))
        chk.case(json.dumps([nf0, pf, ps]), bool(gf or gs))
        if "[" not in pf and "[" not in ps:
            add_model(1713, [codes(pf), codes(ps)] + groups_of(canon_nf(nf0)), [gf, gs], dict(matrix=nf0, frame_pattern=pf, signal_pattern=ps))
        else:
            chk.count("searched-not-tied-bracket-pattern")

    chk.assumptions.append("model/Glob_c17.v covers patterns of literals, '*' and '?' only; patterns with a [..] character class are judged "
                           "against the oracle (whose reading of classes is compared with fnmatch) but are not sent to the model")
    if not ok:
        chk.ties["correspondence"] = "not run (build failed)"
        return
    # ---- TIE ----
    out = core.run_model(lines)
    bad = 0
    explained = 0
    explained_idx = set()
    def answer(i):
        a = core.parse_out(out[i])
        if lines[i].startswith("6b1 "):           # 1713 glob_frames/glob_signals: a lookup result is compared as a set
            a = [sorted(g) for g in a]
        pr = info[i].get("free_projection") if isinstance(info[i], dict) else None
        if pr and a and a[0] == [1]:
            a = [[1]] + project_free_groups(a[1:], (set(pr[0]), set(pr[1])))
        return a
    differing = [i for i, exp in enumerate(expect) if answer(i) != exp]
    if differing and "rename-frame-star-in-name" in known_keys:
        # while the rename_frame finding is recorded as known: a difference is explained when the model of the unpatched
        # code (cmd 1718 / 1719) reproduces the implementation
        retry = []
        for i in differing:
            cmd, rest = lines[i].split(" ", 1)
            alt = {0x6ac: "6b6", 0x6b0: "6b7"}.get(int(cmd, 16))        # 1708 -> 1718, 1712 -> 1719
            retry.append((i, alt + " " + rest if alt else None))
        out2 = core.run_model([l for _, l in retry if l is not None])
        it = iter(out2)
        still = []
        for i, l in retry:
            if l is not None and core.parse_out(next(it)) == expect[i]:
                explained += 1
                explained_idx.add(i)
            else:
                still.append(i)
        differing = still
    for i in differing:
        bad += 1
        chk.tie_break("bulkops", info[i], answer(i), expect[i])
    chk.ties["correspondence"] = {"suite": "bulkops (cmd 1701-1713: model vs implementation)", "cases": len(lines), "disagreements": bad,
                                  "explained_by_known_finding": explained}
    out = core.run_model(glob_lines)
    bad = 0
    for inf, exp, o in zip(glob_info, glob_expect, out):
        if core.parse_out(o) != exp:
            bad += 1
            chk.tie_break("glob-vs-fnmatch", inf, core.parse_out(o), exp)
    chk.ties["glob"] = {"suite": "glob_match vs fnmatch.fnmatchcase (cmd 1711)", "cases": len(glob_lines), "disagreements": bad,
                        "oracle_vs_fnmatch_disagreements": oracle_bad}
    out = core.run_model(spec_lines)
    bad = 0
    for inf, exp, o in zip(spec_info, spec_expect, out):
        if core.parse_out(o) != exp:
            bad += 1
            chk.tie_break("spec-vs-oracle", inf, core.parse_out(o), exp)
    chk.ties["spec_vs_oracle"] = {"suite": "spec_op (right-hand sides of the theorems, cmd 1714) vs the Python oracle", "cases": len(spec_lines),
                                  "disagreements": bad}
    # in-Coq shard
    pool = [(l, e) for i, (l, e) in enumerate(zip(lines, expect)) if len(l) < 900 and i not in explained_idx and not l.startswith("6b1 ")
            and not (isinstance(info[i], dict) and info[i].get("free_projection"))] \
        + list(zip(glob_lines[:2000], glob_expect[:2000]))
    idx = rng.sample(range(len(pool)), min(300, len(pool)))
    shard = []
    for i in idx:
        c, groups = pool[i][0].split(" ", 1)
        shard.append((int(c, 16), core.parse_out(groups), pool[i][1]))
    mm, log = core.coq_shard(shard, "c17")
    chk.ties["vm_compute_shard"] = {"cases": len(shard), "mismatches": mm}
    if mm is None:
        chk.obligation_failures.append("in-Coq shard failed to evaluate")
        chk.build_log = log[-3000:]
    else:
        for i in mm:
            chk.tie_break("bulkops-shard", shard[i][1], "vm_compute differs", shard[i][2])
