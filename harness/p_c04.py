"""C04: physical scaling is exact decimal arithmetic and invertible.
Tie 1: model/Decimal.v (add/sub/mul/div/round after _pydecimal) vs the C `decimal` module the library computes with, compared
as as_tuple() (cmd 401).  Tie 2: Signal(...) construction (factor/offset converters, value-table normalisation, default min/max,
raw range) + raw2phys / DecodedSignal.phys_value / named_value / phys2raw (numbers and labels) vs model/Scaling.v (cmd 402-405).
Search oracle: exact rational arithmetic (fractions.Fraction) and plain dict look-ups, written without the model."""
import decimal
from fractions import Fraction
import core

D = decimal.Decimal

LEVEL_NOTE = ("theorems are about model/Decimal.v + model/Scaling.v + model/ValueTable.v (integer signals, float_factory = decimal.Decimal); "
              "the model has one zero per exponent, so the SIGN of a zero result (Decimal('-0.0')) is not compared - values are; "
              "exponents stay far inside Emin/Emax (no overflow/underflow/clamp branch of the context is modelled); "
              "Decimal(str) parsing is trusted (operands enter the model as as_tuple()); "
              "outside (not generated, or projected away before comparing): float signals, widths other than 1..64, str inputs that "
              "are not labels of the current table (whatever they do - parse as a number, raise - is not judged and not tied), "
              "phys2raw(None), factors whose float() underflows to 0.0; scalings whose exact product or result needs more than 28 "
              "significant digits are outside the property's quantifier: neither the search nor the model tie looks at them (raw values, default limits and arbitrary "
              "physical values outside the envelope are counted and skipped); logging output and exception texts are never compared; "
              "what phys2raw returns for a physical value that is not the image of a raw value (rounding direction, .5 ties), which key "
              "a label carried by several keys converts to, the order of a value table and the winner among colliding key spellings "
              "and which of the two images of the raw bounds is called min / max when the factor is negative "
              "are open: compared modulo the choice or not generated")

# (factor, offset) as the strings a DBC/ARXML/... reader would hand to Signal(...)
SCALINGS = [
    ("1", "0"), ("0.1", "0"), ("0.3", "0"), ("0.333333333333", "0"), ("1E-7", "0"), ("2.5E+3", "0"), ("-0.1", "0"),
    ("-0.25", "100"), ("0.5", "-40"), ("0.01", "-327.68"), ("0.001", "1E+3"), ("0.125", "0.0625"), ("1.0", "0.0"),
    ("1.00", "-0.50"), ("3", "7"), ("7", "-3"), ("0.7", "0.07"), ("1E+2", "5E-3"), ("1E-3", "1E+2"), ("0.03125", "-273.15"),
    ("0.0009765625", "0"), ("123456.789012", "0"), ("0.000123456789012", "-1.5E-5"), ("9.99999999999", "-9.99999999999"),
    ("-3.14159265359", "2.71828182846"), ("6.25E-2", "-2E+1"), ("1E+1", "1E-1"), ("0.1", "1E-20"), ("1E-10", "1E+10"),
    ("0.05", "1.25E+2"), ("1.5E-5", "0.5"), ("4E+0", "-8E+0"), ("0.000001", "-0.000001"), ("16", "-32768"),
    ("0.00390625", "-128"), ("1E+27", "0"), ("99999999999.9", "0.1"), ("-2.5E+3", "-1E-3"), ("0.2", "-0.0"), ("2", "0E-5"),
    ("0.6", "1E+5"), ("-7E-3", "7E+3"), ("0.142857142857", "0.857142857143"), ("5", "1E+3"),
    # factor zero in several spellings: the converter stores 1
    ("0", "5"), ("0.0", "0"), ("-0", "1.5"), ("0E+3", "2"),
    # beyond the 28-digit envelope for most raw values (counted; neither judged nor tied)
    ("1E-15", "1E+15"), ("0.3333333333333333333333333333", "0"), ("1E-30", "1"), ("0.1", "1E-27"),
]


# value choices spelled like numbers (they are labels all the same) and special texts
NUMERIC_LOOKING = ["0", "1", "2", "7", "-3", "+4", "10", "255", "1e2", "2.5e1", "1E+1", "1E-2", " 7 ", " 12", "0.5", ".5", "5.",
                   "12.50", "-0.0", "1_0", "Infinity", "-Infinity", "inf", "NaN", "nan", "sNaN", "-NaN123"]


# edge-of-domain label texts: empty, blank, texts that read like Python constants, non-ASCII, quotes, very long
EDGE_LABELS = ["", " ", "\t", "None", "False", "0", "L 0", "L0 ", "\u00fcn\u00ef\u00b0", "'q\"", "a" * 200]
EDGE_SET = set(EDGE_LABELS)


def edge_key(key, lab):
    """violation keys of their own for label checks that involve an edge label"""
    return ("edge-" + key) if lab in EDGE_SET else key


def mk(m, e):
    return D((1 if m < 0 else 0, tuple(int(c) for c in str(abs(m))), e))


def tup(d):
    """(signed coefficient, exponent); the sign of a zero is dropped (see LEVEL_NOTE)"""
    s, dg, e = d.as_tuple()
    m = int("".join(map(str, dg)))
    return [-m if s else m, e]


def sig_digits_int(n):
    """significant digits of the integer n (trailing zeros dropped)"""
    n = abs(n)
    if n == 0:
        return 1
    while n % 10 == 0:
        n //= 10
    return len(str(n))


def sig_digits_fr(fr):
    """significant digits of a rational with terminating decimal expansion, None when it does not terminate"""
    if fr == 0:
        return 1
    d = fr.denominator
    k = 0
    p = 1
    while p % d:
        p *= 10
        k += 1
        if k > 400:
            return None
    return sig_digits_int(abs(fr.numerator) * p // d)


def raw_range(size, signed):
    return (-(1 << (size - 1)), (1 << (size - 1)) - 1) if signed else (0, (1 << size) - 1)


def inside_envelope(raw, mf, ef, mo, eo):
    """exact product raw*factor and exact result raw*factor+offset both have <= 28 significant digits"""
    if sig_digits_int(raw * mf) > 28:
        return False
    e = min(ef, eo)
    return sig_digits_int(raw * mf * 10 ** (ef - e) + mo * 10 ** (eo - e)) <= 28


# ------------------------------------------------------------------ decimal operand generator
def gen_operands(rng, chk):
    """one (op, a, b) with a, b = (signed coefficient, exponent); op 0 add 1 sub 2 mul 3 div 4 round(a)"""
    def coeff(k=None):
        k = k or rng.choice([1, 1, 2, 3, 5, 8, 12, 14, 15, 20, 27, 28, 28, 29, 30, 40])
        kind = rng.random()
        if kind < 0.08:
            m = 0
        elif kind < 0.22:
            m = 10 ** k - rng.choice([0, 1, 1, 2])
        elif kind < 0.32:
            m = 5 * 10 ** (k - 1) + rng.choice([0, 0, 1, -1])
        elif kind < 0.40:
            m = 10 ** (k - 1) + rng.choice([0, 1])
        else:
            m = rng.randrange(10 ** (k - 1), 10 ** k)
        return -m if rng.random() < 0.45 else m

    def exp():
        return rng.randint(-30, 30)
    cat = rng.choice(["random", "random", "random", "tie", "carry", "wide", "cancel", "far", "aligned", "divexact", "zero", "roundint"])
    op = rng.randrange(4)
    a, b = (coeff(), exp()), (coeff(), exp())
    if cat == "tie":
        k = rng.choice([28, 28, 27, 20])
        K = rng.randrange(10 ** (k - 1), 10 ** k)
        if op in (0, 1):          # exact sum = K5 or K50..0: a tie at the rounding digit
            z = rng.choice([0, 0, 1, 3])
            S = (K * 10 + 5) * 10 ** z
            bm = coeff(rng.choice([3, 10, 25]))
            e = exp()
            a, b = (S - bm, e), ((bm if op == 0 else -bm), e)
        elif op == 2:             # 5 * odd 28-digit number, 25 * (..2 or ..6)
            if rng.random() < 0.5:
                a, b = (rng.choice([5, -5]), exp()), (K | 1, exp())
            else:
                a, b = (25, exp()), (K - K % 10 + rng.choice([2, 6]), exp())
        else:                     # (2K+1)/2 = K.5
            a, b = ((2 * K + 1) * rng.choice([1, -1]), exp()), (rng.choice([2, -2, 20]), exp())
    elif cat == "carry":
        k = 28
        nines = 10 ** k - 1
        if op in (0, 1):
            e = exp()
            a, b = (nines * 10, e), (rng.choice([5, 6, 4, 9]) * (1 if op == 0 else -1), e)
        elif op == 2:
            a, b = (nines, exp()), (rng.choice([10 ** 3 + 1, 3, 11, 10 ** 28 - 1]), exp())
        else:
            a, b = (nines * 10 + rng.choice([5, 6, 9]), exp()), (rng.choice([1, 10, 1000]), exp())
    elif cat == "wide":
        a, b = (coeff(rng.choice([28, 29])), exp()), (coeff(rng.choice([1, 2, 28, 29])), exp())
    elif cat == "cancel":
        e = exp()
        a = (coeff(), e)
        b = (-a[0] + rng.choice([0, 0, 1, -1, 5, 10 ** 5]), e + rng.choice([0, 0, 0, 1, -1]))
        op = rng.choice([0, 1])
        if op == 1:
            b = (-b[0], b[1])
    elif cat == "far":            # operands far apart: _normalize's replacement of the small one by 1
        ea = exp()
        a = (coeff(), ea)
        b = (coeff(rng.choice([1, 2, 5])), ea - rng.randint(25, 45) if rng.random() < 0.5 else ea + rng.randint(25, 45))
        op = rng.choice([0, 1])
    elif cat == "aligned":
        e = exp()
        a, b = (coeff(), e), (coeff(), e + rng.randint(-3, 3))
    elif cat == "divexact":
        bm = coeff(rng.choice([1, 2, 3, 7, 12])) or 3
        q = coeff(rng.choice([1, 3, 10, 20, 28]))
        a, b = (bm * q * 10 ** rng.choice([0, 0, 1, 4]), exp()), (bm, exp())
        op = 3
    elif cat == "zero":
        if rng.random() < 0.5:
            a = (0, exp())
        else:
            b = (0, exp())
    elif cat == "roundint":
        op = 4
        k = rng.choice([1, 2, 5, 12, 20, 28])
        base = rng.randrange(0, 10 ** k)
        z = rng.choice([1, 1, 2, 5])
        frac = rng.choice([5 * 10 ** (z - 1), 5 * 10 ** (z - 1), 5 * 10 ** (z - 1) + 1, 5 * 10 ** (z - 1) - 1, 0, rng.randrange(10 ** z)])
        m = base * 10 ** z + frac
        a = (m * rng.choice([1, -1]), -z if rng.random() < 0.8 else rng.choice([-z - 3, 0, 2, -40]))
    chk.count("dec-" + cat)
    chk.count("dec-op-" + ["add", "sub", "mul", "div", "round"][op])
    return op, a, b


def dec_apply(op, A, B):
    try:
        if op == 0:
            return [1] + tup(A + B)
        if op == 1:
            return [1] + tup(A - B)
        if op == 2:
            return [1] + tup(A * B)
        if op == 3:
            return [1] + tup(A / B)
        r = round(A)
        assert isinstance(r, int)
        return [1, r]
    except (decimal.DivisionByZero, decimal.InvalidOperation):
        return [0]


def dec_oracle(chk, op, a, b, res):
    """independent sanity of the C decimal module itself against exact rationals (not a property of canmatrix; a failure
    here would mean the trusted library is not what the model assumes)"""
    A, B = Fraction(a[0]) * Fraction(10) ** a[1], Fraction(b[0]) * Fraction(10) ** b[1]
    if res == [0]:
        return op == 3 and B == 0
    if op == 4:
        return res[1] == round(A)            # Fraction.__round__ is half-even
    exact = [A + B, A - B, A * B, (A / B if B else None)][op]
    got = Fraction(res[1]) * Fraction(10) ** res[2]
    sd = sig_digits_fr(exact)
    if sd is not None and sd <= 28:
        return got == exact
    # rounded: within half a unit in the last place of a 28-digit coefficient
    return exact == 0 or abs(got - exact) * 2 <= abs(exact) * Fraction(1, 10 ** 27)


def run_model_parallel(lines):
    """core.run_model on interleaved slices in several driver processes (the extracted model keeps Z as an inductive
    type: about 1 ms per raw value); order of answers is restored"""
    import concurrent.futures
    n = max(1, min(core.NPROC - 2, 14, len(lines) // 50 + 1))
    with concurrent.futures.ThreadPoolExecutor(n) as ex:
        parts = list(ex.map(lambda k: core.run_model(lines[k::n]), range(n)))
    out = [None] * len(lines)
    for k, part in enumerate(parts):
        if len(part) != len(lines[k::n]):
            raise RuntimeError("model driver returned %d answers for %d cases" % (len(part), len(lines[k::n])))
        out[k::n] = part
    return out


# ------------------------------------------------------------------ main
def run(chk):
    chk.rule = ("decimal tie: seeded operand pairs x {add, sub, mul, div, round} with coefficients of 1..40 digits, exponents -30..30, "
                "zeros, negatives, exact ties at the rounding digit, 99..9 carries, 28/29-digit results, cancellation, far-apart "
                "exponents, exact and inexact quotients.  signals: %d scalings (non-dyadic, negative, exponent notation, 12-digit, "
                "factor zero) x widths 1..12 x signed/unsigned with EVERY raw value; widths 13..64 at both ends, around 0 and random "
                "interior; value tables of 0..20 labels (duplicate labels, int/str key collisions, about 30%% of the labels spelled like "
                "numbers: '1', '2.5e1', ' 7 ', 'NaN', ... on keys they do not scale to); phys2raw on labels and on "
                "the images of raw values written in other decimal representations.  histories on one live Signal object: after each edit of the value table "
                "(add_values, values = dict, values[k] = v, del, pop, clear, update, a label moving to another key) and of "
                "factor/offset/size/is_signed/set_min(None)/set_max(None), every label, table key and range end is "
                "converted again and compared with the oracle for the CURRENT state and with a freshly built signal.  label texts include "
                "the empty string, blanks, 'None', non-ASCII and very long texts.  every signal (and every history step, on a frame and a "
                "matrix built once before the edits) is also reached through Frame.decode / Frame.unpack / CanMatrix.decode "
                "(DecodedSignal.raw_value/phys_value/named_value) and Frame.encode by label.  the tie to the model covers exactly the judged inputs (inside the 28-digit envelope, widths 1..64, str arguments that are labels).  non-trivial = scaling other than (1, 0) with raw != 0, or a table "
                "look-up, or a rounding decimal operation; distinct by inputs" % len(SCALINGS))
    ok = chk.build_and_audit()
    # second tie: calculate_raw_range regenerated from the source (integer signals) = model/Scaling.v for all sizes 1..64
    tr_ok = ok and core.translator_tie(chk, ['gen/Tie_scaling.v'], ['gen/Gen_scaling.v'])
    cm = core.import_impl()
    C = cm.canmatrix
    ctx = decimal.getcontext()
    assert ctx.prec == 28 and ctx.rounding == decimal.ROUND_HALF_EVEN and ctx.Emax == 999999 and ctx.Emin == -999999
    assert not ctx.traps[decimal.Inexact] and not ctx.traps[decimal.Rounded] and ctx.clamp == 0
    assert C.Signal.float_factory is decimal.Decimal or C.defaultFloatFactory is decimal.Decimal
    rng = chk.rng
    thorough = chk.tier == "thorough"
    lines, expect, info = [], [], []

    ignores = []
    canons = []

    def sort_table_group(g):
        """a value table as a flat key/label list, in key order (the property fixes no table order)"""
        return [z for pair in sorted(zip(g[0::2], g[1::2])) for z in pair]

    def canon_402(groups):
        """table as a mapping; the two default limits as an unordered pair (which image of the raw bounds is called min and
        which max is open for negative factors)"""
        if len(groups) != 6:
            return groups
        lim = groups[3:5]
        if "outside" in lim:
            lim = ["outside", "outside"]
        else:
            lim = sorted(lim, key=lambda g: Fraction(g[0]) * Fraction(10) ** g[1])
        return groups[:3] + lim + [sort_table_group(groups[5])]

    def limits_ok(mn, mx, lo, hi, F, O, env):
        """the default limits are the physical images of the two bounds of the raw range, as a pair (inside the envelope)"""
        if not isinstance(mn, D) or not isinstance(mx, D):
            return False
        ilo, ihi = lo * F + O, hi * F + O
        in_lo, in_hi = inside_envelope(lo, *env), inside_envelope(hi, *env)
        got = sorted([Fraction(mn), Fraction(mx)])
        if in_lo and in_hi:
            return got == sorted([ilo, ihi])
        if in_lo:
            return ilo in got
        if in_hi:
            return ihi in got
        return True

    def canon_labels(keysets):
        """a label carried by several keys may convert to ANY of them: answers [1, k] with k among the label's keys are
        identified (replaced by the lowest key) on both sides"""
        def f(groups):
            return [[1, min(ks)] if (len(g) == 2 and g[0] == 1 and g[1] in ks) else g for g, ks in zip(groups, keysets)] \
                if len(groups) == len(keysets) else groups
        return f

    def add(cmd, groups, exp, inf, ignore=(), canon=None):
        """`ignore`: indices of answer groups that lie outside the property's quantifier (e.g. the default maximum of a signal
        whose upper raw bound needs more than 28 digits): projected away on both sides before comparing"""
        lines.append(core.fmt_case(cmd, groups))
        expect.append(exp)
        info.append(inf)
        ignores.append(tuple(ignore))
        canons.append(canon)

    # ---------------- 1. decimal arithmetic tie ----------------
    n_dec = 24000 if not thorough else 400000
    lib_bad = 0
    for _ in range(n_dec):
        op, a, b = gen_operands(rng, chk)
        A, B = mk(*a), mk(*b)
        res = dec_apply(op, A, B)
        rounded = not (res == [0] or op == 4 or sig_digits_int(res[1]) < 28)
        chk.case(("dec", op, a, b), rounded or op == 4)
        if not dec_oracle(chk, op, a, b, res):
            lib_bad += 1
            chk.tie_break("decimal-library-vs-rationals", dict(op=op, a=a, b=b), "exact rational arithmetic disagrees", res)
        add(401, [[op, a[0], a[1], b[0], b[1]]], [res], dict(decimal_op=["add", "sub", "mul", "div", "round"][op], a=a, b=b))
    chk.extra["decimal_library_vs_rationals_disagreements"] = lib_bad
    chk.sample(dict(decimal_op="add", a="9999999999999999999999999999", b="0.5", result=str(D("9999999999999999999999999999") + D("0.5"))))

    # ---------------- 2./3. signals ----------------
    scalings = list(SCALINGS)
    nrand = 12 if not thorough else 150
    for _ in range(nrand):
        def rdec(maxd):
            k = rng.randrange(1, maxd + 1)
            m = rng.randrange(10 ** (k - 1), 10 ** k) * rng.choice([1, 1, -1])
            e = rng.randint(-12, 6)
            return format(mk(m, e), rng.choice(["", "E", "f"]) if -8 < e <= 0 else "E")
        scalings.append((rdec(12), rdec(12) if rng.random() < 0.8 else "0"))

    # ---- the other entry points to the same conversions: a frame (and a matrix) that carries the signal
    AID = C.ArbitrationId(0x123, extended=False)

    def make_routes(sig):
        fr = C.Frame("F", arbitration_id=AID, size=8)
        fr.add_signal(sig)
        db = C.CanMatrix()
        db.add_frame(fr)
        return fr, db

    def payload_of(raw, size):
        """8 payload bytes with the two's complement of raw in the low `size` bits (Intel, start bit 0)"""
        return (raw & ((1 << size) - 1)).to_bytes(8, "little")

    def frame_probe(sig, fr, db, size, lo, hi, table, F, O, env, raws, inp, ckey):
        """decode payloads through Frame.decode / Frame.unpack / CanMatrix.decode and read raw_value, phys_value, named_value of
        the DecodedSignal; encode by label through Frame.encode.  Oracle: the table (a dict) and raw*F+O."""
        name = sig.name
        for raw in raws:
            data = payload_of(raw, size)
            inside = inside_envelope(raw, *env)
            for route, fn in (("Frame.decode", fr.decode), ("Frame.unpack", fr.unpack), ("CanMatrix.decode", lambda d: db.decode(AID, d))):
                chk.count("frame-route:" + route)
                chk.case(("frame-route", ckey, route, raw), True)
                try:
                    ds = fn(data)[name]
                    rv, pv, nv = ds.raw_value, ds.phys_value, ds.named_value
                except Exception as e:
                    chk.violation("frame-route-exception", "decoding a payload through %s raised" % route, dict(inp, raw=raw, route=route), None, repr(e))
                    continue
                if rv != raw or type(rv) is not int:
                    chk.violation("frame-route-raw", "raw value decoded through a frame is not the payload's value", dict(inp, raw=raw, route=route), raw, rv)
                    continue
                if inside and (not isinstance(pv, D) or Fraction(pv) != raw * F + O):
                    chk.violation("frame-route-phys", "phys_value of a frame-decoded signal is not raw*factor+offset", dict(inp, raw=raw, route=route), str(raw * F + O), str(pv))
                if raw in table:
                    chk.count("frame-route:labelled-raw")
                    if table[raw] in EDGE_SET:
                        chk.count("frame-route:edge-labelled-raw")
                    if type(nv) is not str or nv != table[raw]:
                        chk.violation("frame-route-named", "named_value of a frame-decoded signal is not the label of its raw value",
                                      dict(inp, raw=raw, route=route), repr(table[raw]), repr(nv))
                elif not isinstance(nv, D) or not isinstance(pv, D) or nv.as_tuple() != pv.as_tuple():
                    chk.violation("frame-route-named", "named_value of an unlabelled frame-decoded raw value is not the scaled number",
                                  dict(inp, raw=raw, route=route), str(pv), repr(nv))
        # encoding by label: Frame.encode({name: label}) writes the label's key
        seen = set()
        for k, lab in table.items():
            if lab in seen or len(seen) >= 4:
                continue
            seen.add(lab)
            if not all(lo <= k2 <= hi for k2, l2 in table.items() if l2 == lab):
                continue
            chk.count("frame-route:encode-by-label")
            try:
                enc = bytes(fr.encode({name: lab}))
            except Exception as e:
                enc = repr(e)
            if enc not in [payload_of(k2, size) for k2, l2 in table.items() if l2 == lab]:
                chk.violation("frame-route-encode-label", "Frame.encode of a label does not write the label's raw key",
                              dict(inp, label=lab), payload_of(k, size).hex(), enc.hex() if isinstance(enc, bytes) else enc)

    def make_table(lo, hi, size):
        """source mapping (list of (key, label-string) in insertion order; keys int or str) and the items after int()"""
        n = rng.choice([0, 0, 1, 2, 3, 5, 8, 20])
        src = []
        for j in range(n):
            k = rng.choice([rng.randrange(lo, hi + 1), rng.randrange(lo, hi + 1), rng.randrange(max(lo, -4), min(hi, 8) + 1), hi, lo, hi + 1 + j])
            lab = "L%d" % (j if rng.random() < 0.85 else rng.randrange(0, max(1, j)))
            if rng.random() < 0.3:
                lab = rng.choice(NUMERIC_LOOKING)     # a value choice spelled like a number is still a label
            elif rng.random() < 0.15:
                lab = rng.choice(EDGE_LABELS)         # empty / blank / odd texts are labels all the same
            if any(int(k0) == k for k0, _ in src):
                continue                      # two spellings of one key (1 and '1') do not make a value table: which entry wins is open
            key = str(k) if rng.random() < 0.25 else k
            src.append((key, lab))
        d = {}
        for k, v in src:
            d[k] = v                      # what the caller's mapping looks like (a dict): later duplicates of the SAME key object win
        return d

    label_ids = {}

    def lab_id(lab):
        """labels are interned as positive integers (0 = the text 'zz' that is never a label)"""
        if lab not in label_ids:
            label_ids[lab] = len(label_ids) + 1
        return label_ids[lab]

    def parse_dec(text):
        """what decimal.Decimal(text) makes of a str: ('num', Decimal) | ('special', Decimal) | ('invalid', None)"""
        try:
            v = D(text)
        except decimal.InvalidOperation:
            return "invalid", None
        return ("num", v) if v.is_finite() else ("special", v)

    def run_signal(si, fs, os_, size, signed, raws, table_src, tie_raws, cache):
        """build the signal, evaluate the property on it (every raw of `raws`), record tie cases (raws in `tie_raws`);
        `cache` (per scaling): raw -> (as_tuple of a physical value already validated against the rational oracle, inside?)"""
        inp = dict(factor=fs, offset=os_, size=size, is_signed=signed, values={repr(k): v for k, v in table_src.items()})
        try:
            use_dec = (si + size) % 3 == 0
            sig = C.Signal("s", size=size, is_signed=signed, factor=D(fs) if use_dec else fs, offset=D(os_) if use_dec else os_,
                           values=dict(table_src))
        except Exception as e:
            chk.violation("construct-raises", "Signal(...) raised for a decimal scaling", inp, None, repr(e))
            return
        Fin = D(fs)
        f_model_in = tup(Fin)
        o_t = tup(D(os_))
        # -- independent expectations
        F = Fraction(Fin) if Fin != 0 else Fraction(1)
        O = Fraction(D(os_))
        exp_table = {}
        for k, v in table_src.items():
            exp_table[int(k)] = v
        lo, hi = raw_range(size, signed)
        # stored attributes
        if not isinstance(sig.factor, D) or not isinstance(sig.offset, D):
            chk.violation("not-decimal", "factor/offset are not stored as Decimal", inp, "Decimal", (type(sig.factor).__name__, type(sig.offset).__name__))
            return
        if Fraction(sig.factor) != F or Fraction(sig.offset) != O:
            chk.violation("converter", "stored factor/offset differ from the given decimals (factor 0 -> 1)", inp, (str(F), str(O)), (str(sig.factor), str(sig.offset)))
        if Fin == 0:
            chk.count("factor-zero")
        mf, ef = tup(sig.factor)
        mo, eo = tup(sig.offset)
        if dict(sig.values) != exp_table:
            chk.violation("table-normalise", "value table keys are not the int() of the given keys", inp, exp_table, dict(sig.values))
        try:
            rr = sig.calculate_raw_range()
        except Exception as e:
            chk.violation("exception", "calculate_raw_range raised", inp, None, repr(e))
            return
        if tuple(rr) != (lo, hi) or not all(isinstance(x, int) for x in rr):
            chk.violation("raw-range", "raw range is not the two's complement / unsigned range of the width", inp, (lo, hi), tuple(rr))
        # default limits = the images of the two raw bounds (as a pair: for a negative factor the image of the upper raw bound
        # is the smaller number, and the property does not say which of the two is then called min)
        env = (mf, ef, mo, eo)
        chk.count("default-limits:" + ("negative-factor" if F < 0 else "positive-factor"))
        if not limits_ok(sig.min, sig.max, lo, hi, F, O, env):
            imgs = [lo * F + O, hi * F + O]
            bad_min = not isinstance(sig.min, D) or (inside_envelope(lo, *env) and inside_envelope(hi, *env) and Fraction(sig.min) not in imgs)
            chk.violation("default-min" if bad_min else "default-max", "the default physical limits are not the images of the raw range's bounds",
                          dict(inp, raw_bounds=(lo, hi)), [str(x) for x in imgs], (str(sig.min), str(sig.max)))
        try:
            s2 = C.Signal("t", size=size, is_signed=signed, factor=fs, offset=os_, min=5, max=6)
            s2.set_min(None)
            s2.set_max(None)
            if Fraction(s2.min) != Fraction(sig.min) or Fraction(s2.max) != Fraction(sig.max):
                chk.violation("set-min-max-none", "set_min(None)/set_max(None) do not recompute the defaults", inp, (str(sig.min), str(sig.max)), (str(s2.min), str(s2.max)))
        except Exception as e:
            chk.violation("exception", "set_min/set_max raised", inp, None, repr(e))
        items = [[int(k), lab_id(v)] for k, v in table_src.items()]
        tflat = [z for it in items for z in it]
        header = [size, int(signed)] + f_model_in + o_t
        add(402, [header, tflat],
            [tup(sig.factor), tup(sig.offset), [rr[0], rr[1]], tup(sig.min), tup(sig.max), [z for k, v in sig.values.items() for z in (k, lab_id(v))]],
            dict(construct=inp),
            ignore=[g for g, b in ((3, lo), (4, hi)) if not inside_envelope(b, mf, ef, mo, eo)],
            canon=canon_402 if (len(exp_table) > 1 or F < 0) else None)
        # -- per raw value
        out403, traws = [], []
        nontriv_scaling = not (F == 1 and O == 0)
        n_in = n_out = 0
        key4 = (fs, os_, size, signed)
        for raw in raws:
            try:
                phys = sig.raw2phys(raw)
                ds = C.DecodedSignal(raw, sig)
                pv = ds.phys_value
                nv = ds.named_value
                back = sig.phys2raw(phys)
                pt = phys.as_tuple()
            except Exception as e:
                chk.violation("exception", "raw2phys / phys2raw / DecodedSignal raised", dict(inp, raw=raw), None, repr(e))
                return
            c = cache.get(raw)
            if c is None or c[0] != pt:
                inside = inside_envelope(raw, mf, ef, mo, eo)
                if inside and (not isinstance(phys, D) or Fraction(phys) != raw * F + O):
                    chk.violation("raw2phys-exact", "physical value is not exactly raw*factor+offset", dict(inp, raw=raw), str(raw * F + O), str(phys))
                else:
                    cache[raw] = (pt, inside)
            else:
                inside = c[1]
            chk.case((key4, raw), (nontriv_scaling and raw != 0) or raw in exp_table)
            if inside:
                n_in += 1
                if back != raw or type(back) is not int:
                    chk.violation("roundtrip", "phys2raw(raw2phys(raw)) != raw", dict(inp, raw=raw, phys=str(phys)), raw, back)
            else:
                n_out += 1
            if pv.__class__ is not D or pv.as_tuple() != pt:
                chk.violation("decoded-phys", "DecodedSignal.phys_value differs from raw2phys", dict(inp, raw=raw), str(phys), str(pv))
            if raw in exp_table:
                if nv != exp_table[raw]:
                    chk.violation(edge_key("named-label", exp_table[raw]), "named_value is not the label of the raw value", dict(inp, raw=raw), exp_table[raw], str(nv))
            elif nv.__class__ is not D or nv.as_tuple() != pt:
                chk.violation("named-scaled", "named_value of an unlabelled raw value is not the scaled number", dict(inp, raw=raw), str(phys), str(nv))
            if inside and raw in tie_raws:
                traws.append(raw)
                if isinstance(nv, str):
                    enc_nv = [0, lab_id(nv)]
                else:
                    enc_nv = [1] + tup(nv) if isinstance(nv, D) else [0, -1]
                out403 += [tup(phys), enc_nv, [1, back]]
        chk.count("raw-inside-envelope", n_in)
        chk.count("raw-outside-envelope(not judged, not tied)", n_out)
        if traws:
            add(403, [header, tflat, traws], out403, dict(signal=inp, raws=traws if len(traws) <= 40 else "%d raw values %d..%d" % (len(traws), traws[0], traws[-1])))
        # -- str arguments: every label of the table (whatever it looks like) converts to its key; the table scan
        #    precedes decimal.Decimal(text).  Texts that are NO label are outside the property: neither judged nor tied.
        labs = sorted(set(exp_table.values()))
        out405, out406, args406, texts406 = [], [], [], []
        for lab in labs:
            try:
                r = sig.phys2raw(lab)
                got = [1, r]
            except Exception:
                r, got = None, [0]
            kind, pv_ = parse_dec(lab)
            if lab in labs:
                keys = [k for k, v in exp_table.items() if v == lab]
                chk.count("label-unique" if len(keys) == 1 else "label-duplicated")
                if lab in EDGE_SET:
                    chk.count("label-edge:" + ("empty" if lab == "" else "blank" if not lab.strip() else "other"))
                chk.case((fs, os_, size, signed, "label", lab, tuple(exp_table.items())), True)
                if kind != "invalid":
                    # does the label, read as a number, scale to another raw value than its key?
                    try:
                        as_num = round((Fraction(pv_) - O) / F) if kind == "num" else None
                    except Exception:
                        as_num = None
                    chk.count("label-numeric-looking:%s" % ("scales-elsewhere" if as_num not in keys else "coincides-with-key"))
                # a label carried by several keys may convert to any of them (the property names no tie-break)
                if r not in keys or type(r) is not int:
                    chk.violation(edge_key("label-to-raw", lab), "a label does not convert to a raw key that carries it", dict(inp, label=lab), keys, r)
                elif len(keys) == 1:
                    try:
                        nv = C.DecodedSignal(r, sig).named_value
                    except Exception as e:
                        nv = repr(e)
                    if nv != lab:
                        chk.violation(edge_key("label-roundtrip", lab), "label -> raw -> named value does not return the label", dict(inp, label=lab), lab, str(nv))
                out405.append(got)
            texts406.append(lab)
            args406 += [lab_id(lab)] + ([1] + tup(pv_) if kind == "num" else [0, 0, 0])
            out406.append(got if isinstance(got[-1], int) else [0])
        if labs:
            keysets = [[k for k, v in exp_table.items() if v == l] for l in labs]
            cl = canon_labels(keysets) if any(len(ks) > 1 for ks in keysets) else None
            add(405, [header, tflat, [lab_id(l) for l in labs]], out405, dict(signal=inp, labels=labs), canon=cl)
            add(406, [header, tflat, args406], out406, dict(signal=inp, str_arguments=texts406), canon=cl)
        # -- the same conversions reached through a frame / a matrix carrying this signal
        if 1 <= size <= 64:
            fr, db = make_routes(sig)
            praws = sorted({k for k in list(exp_table)[:6] if lo <= k <= hi} | {lo, hi, rng.randrange(lo, hi + 1), rng.randrange(lo, hi + 1)})
            frame_probe(sig, fr, db, size, lo, hi, exp_table, F, O, (mf, ef, mo, eo), praws, inp, (fs, os_, size, signed))
        # -- the physical value of a raw value, written in another decimal representation (minimal coefficient, or padded with
        #    zeros), converts back to that raw value.  What phys2raw does with a value that is NOT the image of a raw value (which
        #    neighbour, which way an exact .5 goes) is not stated by the property: neither judged nor tied.
        for _ in range(6 if not thorough else 12):
            r0 = rng.randrange(lo, hi + 1)
            if not inside_envelope(r0, mf, ef, mo, eo):
                continue
            val = r0 * F + O
            k = 0
            while (val * 10 ** k).denominator != 1:
                k += 1
            pad = rng.choice([0, 0, 1, 3])
            m = int(val * 10 ** k) * 10 ** pad
            if len(str(abs(m))) > 28:
                continue
            v = mk(m, -k - pad)
            try:
                r = sig.phys2raw(v)
            except Exception as e:
                chk.violation("exception", "phys2raw raised on a decimal", dict(inp, value=str(v)), None, repr(e))
                continue
            chk.case((fs, os_, size, signed, "phys2raw", str(v)), True)
            chk.count("phys2raw-image-other-representation")
            if r != r0 or type(r) is not int:
                chk.violation("roundtrip-representation", "the physical value of a raw value, written with another coefficient/exponent, does not convert back to it",
                              dict(inp, raw=r0, value=str(v)), r0, r)
            add(404, [header, tflat, tup(v)], [[1, r]], dict(signal=inp, value=str(v)))

    # widths 1..12: every raw value is judged; the model tie takes every raw up to width `tie_full` and a sample above
    tie_full = 8 if not thorough else 10
    nsig = 0
    caches = [dict() for _ in scalings]
    for si, (fs, os_) in enumerate(scalings):
        for size in range(1, 13):
            for signed in (False, True):
                lo, hi = raw_range(size, signed)
                allraws = range(lo, hi + 1)
                if size <= tie_full:
                    tie_raws = allraws
                else:
                    tie_raws = {lo, lo + 1, hi - 1, hi, 0, 1} | {rng.randrange(lo, hi + 1) for _ in range(16)}
                run_signal(si, fs, os_, size, signed, allraws, make_table(lo, hi, size), tie_raws, caches[si])
                nsig += 1
                chk.count("width<=12")
    chk.exhaustive = True
    # widths 13..64: both ends, around zero, powers of two, random interior
    nint = 10 if not thorough else 150
    for si, (fs, os_) in enumerate(scalings):
        for size in range(13, 65):
            if not thorough and (size + si) % 4 and size not in (13, 16, 24, 31, 32, 33, 48, 63, 64):
                continue
            for signed in (False, True):
                lo, hi = raw_range(size, signed)
                cand = {lo, lo + 1, lo + 2, hi, hi - 1, hi - 2, 0, 1, 2, 3, (hi + lo) // 2, 10 ** (len(str(hi)) - 1), 10 ** (len(str(hi)) - 1) - 1}
                if signed:
                    cand |= {-1, -2, -3}
                ks = range(1, size) if thorough else rng.sample(range(1, size), 5)
                cand |= {(1 << k) - 1 for k in ks} | {1 << k for k in ks}
                cand |= {rng.randrange(lo, hi + 1) for _ in range(nint)}
                raws = sorted(x for x in cand if lo <= x <= hi)
                tie_raws = set(raws) if not thorough else set(rng.sample(raws, min(30, len(raws))))
                run_signal(si, fs, os_, size, signed, raws, make_table(lo, hi, size), tie_raws, caches[si])
                nsig += 1
                chk.count("width>12")
    chk.count("signals", nsig)
    chk.sample(dict(factor="0.3", offset="0", size=12, is_signed=True, raw=-2047, phys=str(D("0.3") * -2047), back=-2047))
    chk.sample(dict(factor="2.5E+3", offset="-1E-3", size=64, is_signed=False, raw=2 ** 64 - 1,
                    phys=str((2 ** 64 - 1) * D("2.5E+3") + D("-1E-3"))))
    chk.sample(dict(values={1: "L0", "1": "L1", 2: "L2"}, normalised={1: "L1", 2: "L2"}, label="L1", raw=1))
    chk.sample(dict(outside_envelope=dict(factor="1E-30", offset="1", raw=7, phys=str(7 * D("1E-30") + D("1")), back=0),
                    note="31 significant digits: outside the property's quantifier: counted, neither judged nor tied"))

    # ---------------- 4. histories on ONE live Signal object ----------------
    # The value table and the scaling fields are public and mutable.  After every edit, through every public route, the
    # conversions must answer for the CURRENT table / fields (= what a freshly built signal with them answers).
    LABEL_POOL = ["L%d" % i for i in range(8)] + ["1", "2", "7", "2.5e1", " 7 ", "NaN", "1e2", "-3"] + ["", "", " ", "None", "0", "\u00fcn\u00ef\u00b0"]
    FACTORS = ["1", "0.1", "0.3", "-0.25", "2.5E+3", "0.333333333333", "1E-7", "5", "0.5", "-7E-3"]
    OFFSETS = ["0", "-40", "1E+3", "0.0625", "-327.68", "7", "-0.50", "1E-20"]

    def check_live(sig, cur, size, signed, Fd, Od, hist, gone, routes=None):
        inp = dict(history=list(hist), size=size, is_signed=signed, factor=str(Fd), offset=str(Od), current_values={repr(k): v for k, v in cur.items()})
        F, O = Fraction(Fd), Fraction(Od)
        mf, ef = tup(Fd)
        mo, eo = tup(Od)
        lo, hi = raw_range(size, signed)
        try:
            fresh = C.Signal("fresh", size=size, is_signed=signed, factor=Fd, offset=Od, values=dict(cur))
            if dict(sig.values) != cur:
                chk.violation("history-table", "the signal's value table is not what the edits made it", inp, cur, dict(sig.values))
                return False
            # label -> key for every label of the current table; labels that left the table are no labels any more
            labs = list(dict.fromkeys(cur.values()))
            out406, args406, texts = [], [], []
            for lab in labs:
                try:
                    r = sig.phys2raw(lab)
                    got = [1, r]
                except Exception:
                    r, got = None, [0]
                try:
                    rf = fresh.phys2raw(lab)
                except Exception:
                    rf = None
                kind, pv_ = parse_dec(lab)
                chk.case(("hist-label", tuple(hist), lab), True)
                if lab in cur.values():
                    exp = [k for k, v in cur.items() if v == lab]       # several keys: any of them
                    chk.count("history-label-lookups")
                    if lab in EDGE_SET:
                        chk.count("history-label-edge:" + ("empty" if lab == "" else "blank" if not lab.strip() else "other"))
                    if r not in exp or type(r) is not int:
                        chk.violation(edge_key("history-label-to-raw", lab), "after editing the value table a label does not convert to a current raw key that carries it",
                                      dict(inp, label=lab), exp, r)
                    elif list(cur.values()).count(lab) == 1 and sig.raw2phys(r, decode_to_str=True) != lab:
                        chk.violation(edge_key("history-label-roundtrip", lab), "label -> raw -> named value does not return the label after an edit", dict(inp, label=lab), lab, None)
                if r != rf and list(cur.values()).count(lab) == 1:
                    chk.violation("history-vs-fresh", "phys2raw(str) on the edited signal differs from a freshly built signal with the same table and fields",
                                  dict(inp, label=lab), rf, r)
                texts.append(lab)
                args406 += [lab_id(lab)] + ([1] + tup(pv_) if kind == "num" else [0, 0, 0])
                out406.append(got if isinstance(got[-1], int) else [0])
            # raw -> named value / number, exactness, round trip, for the current fields
            raws = sorted({k for k in cur if lo <= k <= hi} | {lo, hi, 0 if lo <= 0 else lo, rng.randrange(lo, hi + 1), rng.randrange(lo, hi + 1)})
            out403, traws = [], []
            for raw in raws:
                phys = sig.raw2phys(raw)
                nv = C.DecodedSignal(raw, sig).named_value
                back = sig.phys2raw(phys)
                chk.case(("hist-raw", tuple(hist), raw), True)
                chk.count("history-raw-conversions")
                if inside_envelope(raw, mf, ef, mo, eo):
                    if Fraction(phys) != raw * F + O:
                        chk.violation("history-raw2phys", "raw2phys does not follow the signal's current factor/offset", dict(inp, raw=raw), str(raw * F + O), str(phys))
                    if back != raw:
                        chk.violation("history-roundtrip", "phys2raw(raw2phys(raw)) != raw after an edit", dict(inp, raw=raw), raw, back)
                expn = cur[raw] if raw in cur else phys
                if (nv != expn) or (raw not in cur and nv.as_tuple() != phys.as_tuple()):
                    chk.violation(edge_key("history-named", cur.get(raw)), "named value does not follow the current value table", dict(inp, raw=raw), repr(expn), repr(nv))
                nf = fresh.raw2phys(raw, decode_to_str=True)
                if type(nf) is not type(nv) or (nf != nv) or fresh.raw2phys(raw).as_tuple() != phys.as_tuple():
                    chk.violation("history-vs-fresh", "raw2phys on the edited signal differs from a freshly built signal", dict(inp, raw=raw), str(nf), str(nv))
                if inside_envelope(raw, mf, ef, mo, eo):
                    traws.append(raw)
                    out403 += [tup(phys), [0, lab_id(nv)] if isinstance(nv, str) else [1] + tup(nv), [1, back]]
            if routes is not None:
                # the frame and the matrix were built ONCE around this signal, before the edits
                frame_probe(sig, routes[0], routes[1], size, lo, hi, cur, F, O, (mf, ef, mo, eo), raws, inp, tuple(hist))
            rr = tuple(sig.calculate_raw_range())
            cmin, cmax = sig.calc_min(), sig.calc_max()
            if rr != (lo, hi):
                chk.violation("history-raw-range", "calculate_raw_range does not follow the current size/is_signed", inp, (lo, hi), rr)
            if Fraction(cmin) != Fraction(fresh.min) or Fraction(cmax) != Fraction(fresh.max) or not limits_ok(cmin, cmax, lo, hi, F, O, (mf, ef, mo, eo)):
                chk.violation("history-limits", "calc_min/calc_max are not the images of the current raw range under the current scaling", inp,
                              (str(fresh.min), str(fresh.max)), (str(cmin), str(cmax)))
        except Exception as e:
            chk.violation("exception", "a conversion raised on an edited signal", inp, None, repr(e))
            return False
        header = [size, int(signed)] + tup(Fd) + tup(Od)
        tflat = [z for k, v in cur.items() for z in (k, lab_id(v))]
        add(402, [header, tflat], [tup(sig.factor), tup(sig.offset), [rr[0], rr[1]], tup(cmin), tup(cmax), tflat], dict(history=inp),
            ignore=[g for g, b in ((3, lo), (4, hi)) if not inside_envelope(b, mf, ef, mo, eo)],
            canon=canon_402 if (len(cur) > 1 or F < 0) else None)
        if traws:
            add(403, [header, tflat, traws], out403, dict(history=inp, raws=traws))
        if texts:
            keysets = [[k for k, v in cur.items() if v == l] for l in texts]
            add(406, [header, tflat, args406], out406, dict(history=inp, str_arguments=texts),
                canon=canon_labels(keysets) if any(len(ks) > 1 for ks in keysets) else None)
        return True

    nhist = 250 if not thorough else 4000
    for h in range(nhist):
        size, signed = rng.choice([3, 4, 8, 12, 16, 32, 64]), rng.random() < 0.5
        Fd, Od = D(rng.choice(FACTORS)), D(rng.choice(OFFSETS))
        lo, hi = raw_range(size, signed)

        def rkey():
            return rng.choice([rng.randrange(max(lo, -3), min(hi, 7) + 1), rng.randrange(max(lo, -3), min(hi, 7) + 1), rng.randrange(lo, hi + 1), hi, lo])
        cur = {}
        for _ in range(rng.choice([0, 1, 2, 4, 6])):
            cur[rkey()] = rng.choice(LABEL_POOL)
        try:
            sig = C.Signal("live", size=size, is_signed=signed, factor=Fd, offset=Od, values=dict(cur))
        except Exception as e:
            chk.violation("construct-raises", "Signal(...) raised", dict(values=cur), None, repr(e))
            continue
        hist = ["Signal(size=%d, is_signed=%s, factor=%s, offset=%s, values=%r)" % (size, signed, Fd, Od, cur)]
        gone = []
        routes = make_routes(sig)
        if not check_live(sig, cur, size, signed, Fd, Od, hist, gone, routes):
            continue
        for step in range(rng.randrange(3, 9)):
            op = rng.choice(["add_values", "add_values", "assign", "assign", "setitem", "setitem", "setitem", "del", "del", "pop", "clear", "update",
                             "move", "move", "factor", "offset", "size", "is_signed", "set_min_none", "set_max_none"])
            before = list(cur.values())
            try:
                if op == "add_values":
                    k, lab = rkey(), rng.choice(LABEL_POOL)
                    arg = rng.choice([k, str(k), hex(k) if k >= 0 else str(k)])
                    sig.add_values(arg, lab)
                    cur[k] = lab
                    hist.append("add_values(%r, %r)" % (arg, lab))
                elif op == "assign":
                    new = {}
                    for _ in range(rng.choice([0, 1, 2, 4, 6])):
                        new[rkey()] = rng.choice(LABEL_POOL)
                    sig.values = dict(new)
                    cur = dict(new)
                    hist.append("values = %r" % (new,))
                elif op == "setitem":
                    k = rng.choice(list(cur)) if cur and rng.random() < 0.5 else rkey()
                    lab = rng.choice(LABEL_POOL)
                    sig.values[k] = lab
                    cur[k] = lab
                    hist.append("values[%d] = %r" % (k, lab))
                elif op in ("del", "pop"):
                    if not cur:
                        continue
                    k = rng.choice(list(cur))
                    if op == "del":
                        del sig.values[k]
                    else:
                        sig.values.pop(k)
                    del cur[k]
                    hist.append("%s values[%d]" % (op, k))
                elif op == "clear":
                    sig.values.clear()
                    cur.clear()
                    hist.append("values.clear()")
                elif op == "update":
                    new = {rkey(): rng.choice(LABEL_POOL) for _ in range(rng.choice([1, 2, 3]))}
                    sig.values.update(new)
                    cur.update(new)
                    hist.append("values.update(%r)" % (new,))
                elif op == "move":                    # a label moves to another key
                    if not cur:
                        continue
                    k = rng.choice(list(cur))
                    lab = cur[k]
                    k2 = rkey()
                    if k2 == k:
                        continue
                    del sig.values[k]
                    sig.values[k2] = lab
                    del cur[k]
                    cur[k2] = lab
                    hist.append("del values[%d]; values[%d] = %r" % (k, k2, lab))
                elif op == "factor":
                    Fd = D(rng.choice(FACTORS))
                    sig.factor = Fd
                    hist.append("factor = %s" % Fd)
                elif op == "offset":
                    Od = D(rng.choice(OFFSETS))
                    sig.offset = Od
                    hist.append("offset = %s" % Od)
                elif op == "size":
                    size = rng.choice([1, 2, 5, 8, 12, 13, 24, 32, 63, 64])
                    sig.size = size
                    lo, hi = raw_range(size, signed)
                    hist.append("size = %d" % size)
                elif op == "is_signed":
                    signed = not signed
                    sig.is_signed = signed
                    lo, hi = raw_range(size, signed)
                    hist.append("is_signed = %s" % signed)
                else:
                    which = "min" if op == "set_min_none" else "max"
                    got = sig.set_min(None) if which == "min" else sig.set_max(None)
                    hist.append("set_%s(None)" % which)
                    bound = lo if which == "min" else hi
                    stored = sig.min if which == "min" else sig.max
                    mf, ef = tup(Fd)
                    mo, eo = tup(Od)
                    imgs = [b * Fraction(Fd) + Fraction(Od) for b in (lo, hi) if inside_envelope(b, mf, ef, mo, eo)]
                    if len(imgs) == 2 and Fraction(stored) not in imgs:
                        chk.violation("history-set-limit", "set_%s(None) does not store an image of the current raw bounds" % which,
                                      dict(history=list(hist), size=size, is_signed=signed), [str(x) for x in imgs], str(stored))
            except Exception as e:
                chk.violation("exception", "editing the signal raised", dict(history=list(hist), op=op), None, repr(e))
                break
            chk.count("history-op-" + op)
            gone = [l for l in dict.fromkeys(gone + before) if l not in cur.values()]
            if not check_live(sig, cur, size, signed, Fd, Od, hist, gone, routes):
                break
    chk.count("histories", nhist)
    chk.sample(dict(history=["Signal(values={0: 'Off', 3: 'L1'})", "phys2raw('L1') -> 3", "values = {5: 'L1', 6: 'New'}", "phys2raw('L1') -> 5",
                             "phys2raw('New') -> 6", "del values[5]", "phys2raw('L1') raises"]))

    # ---------------- model runs ----------------
    if not ok:
        chk.ties["correspondence"] = "not run (build failed)"
        return
    out = run_model_parallel(lines)
    bad = 0
    per = {}
    per_seen = []
    for ln, inf, exp, o in zip(lines, info, expect, out):
        cmd = int(ln.split(" ", 1)[0], 16)
        per[cmd] = per.get(cmd, 0) + 1
        got = core.parse_out(o)
        ign = ignores[len(per_seen)]
        per_seen.append(1)
        if ign:
            got = [g if i not in ign else "outside" for i, g in enumerate(got)]
            exp = [g if i not in ign else "outside" for i, g in enumerate(exp)]
            chk.count("tie-groups-outside-envelope(projected away)", len(ign))
        if canons[len(per_seen) - 1] is not None:
            got, exp = canons[len(per_seen) - 1](got), canons[len(per_seen) - 1](exp)
        if got != exp:
            bad += 1
            if cmd == 403 and len(got) == len(exp):
                j = next(i for i in range(len(exp)) if got[i] != exp[i])
                chk.tie_break("scaling-%d" % cmd, dict(inf, first_difference_at_group=j), got[j], exp[j])
            else:
                chk.tie_break("scaling-%d" % cmd if cmd != 401 else "decimal-401", inf, got if len(str(got)) < 400 else str(got)[:400], exp if len(str(exp)) < 400 else str(exp)[:400])
    chk.ties["correspondence"] = {"suite": "decimal ops (401), construction (402), raw2phys/named/phys2raw (403), phys2raw decimals (404), labels (405)",
                                  "cases": len(lines), "per_command": {str(k): v for k, v in sorted(per.items())},
                                  "raw_values_in_403": sum(len(e) // 3 for ln, e in zip(lines, expect) if ln.startswith("193 ")),
                                  "disagreements": bad}
    # in-Coq shard: small cases only
    small = [i for i, ln in enumerate(lines) if len(ln) < 1500 and not ignores[i] and canons[i] is None]
    idx = rng.sample(small, min(300, len(small)))
    shard = []
    for i in idx:
        c, groups = lines[i].split(" ", 1)
        shard.append((int(c, 16), [[int(t, 16) for t in g.split()] for g in groups.split("|")], expect[i]))
    mm, log = core.coq_shard(shard, "c04")
    chk.ties["vm_compute_shard"] = {"cases": len(shard), "mismatches": mm}
    if mm is None:
        chk.obligation_failures.append("in-Coq shard failed to evaluate")
        chk.build_log = log[-3000:]
    else:
        for i in mm:
            chk.tie_break("scaling-shard", shard[i][1], "vm_compute differs", shard[i][2])
