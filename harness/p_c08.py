"""C08: start-bit notations.  Tie: exhaustive correspondence of Signal.set_startbit/get_startbit with the
Gallina model over the property's whole finite domain; search oracle: the physical-coordinate spec."""
import core

LEVEL_NOTE = ("theorems are about model/Startbit.v; tie = exhaustive differential run over the finite domain "
              "(2 byte orders x widths 1..64 x positions 0..511 x 9 set notations x 9 get notations) plus negative positions")

BN = [None, 0, 1]
SL = [None, False, True]
NOT6 = [(None, False), (None, True), (0, False), (0, True), (1, False), (1, True)]


def coord(lsb0, n):
    return (n // 8, n % 8) if lsb0 else (n // 8, 7 - n % 8)


def spec_bit_coord(le, size, internal, k):
    return coord(True, internal + k) if le else coord(False, internal + (size - 1 - k))


def eff_lsb0(le, bn):
    return le if bn is None else (bn == 1)


def ref_bit(le, size, sl):
    return 0 if le else (0 if sl is True else size - 1)


def run(chk):
    chk.rule = ("every (byte order, width 1..64, position 0..511, set notation) with all get notations; "
                "non-trivial = Motorola or numbering differs from byte order or position rejected; distinct by (le,size,pos,notation)")
    ok = chk.build_and_audit()
    tr_ok = ok and core.translator_tie(chk, ['gen/Tie_startbit.v'], ['gen/Gen_startbit.v'])
    cm = core.import_impl()
    Signal = cm.canmatrix.Signal if hasattr(cm, "canmatrix") else cm.Signal
    Err = cm.canmatrix.StartbitLowerZero
    thorough = chk.tier == "thorough"
    positions = list(range(0, 512))        # the quantifier's positions; what happens to a negative number handed in is left open
    widths = list(range(1, 65))
    lines = []
    keys = []
    impl_res = []
    for le in (True, False):
        for size in widths:
            s = Signal("s", size=size, is_little_endian=le)
            for sb in positions:
                for bn in BN:
                    for sl in SL:
                        s.start_bit = 12345
                        try:
                            s.set_startbit(sb, bitNumbering=bn, startLittle=sl)
                            internal = s.start_bit
                            gets = [s.get_startbit(bit_numbering=b2, start_little=l2) for (b2, l2) in NOT6]
                            # the None/False spellings of start_little must agree with each other
                            g_none = [s.get_startbit(bit_numbering=b2, start_little=None) for b2 in BN]
                            if g_none != [gets[0], gets[2], gets[4]]:
                                chk.violation("get-none-vs-false", "start_little=None and False differ on get",
                                              dict(le=le, size=size, sb=sb, bn=bn, sl=sl))
                            res = [[1, internal], gets]
                        except Exception:          # "rejected with an error": the property names no exception type
                            if s.start_bit != 12345:
                                chk.violation("stored-on-error", "rejected position was stored",
                                              dict(le=le, size=size, sb=sb, bn=bn, sl=sl), 12345, s.start_bit)
                            res = [[0]]
                        # ---- search: the property itself, oracle = physical coordinates ----
                        if res[0][0] == 1:
                            internal = res[0][1]
                            if internal < 0:
                                chk.violation("negative-stored", "negative internal position stored",
                                              dict(le=le, size=size, sb=sb, bn=bn, sl=sl), None, internal)
                            exp = spec_bit_coord(le, size, internal, ref_bit(le, size, sl))
                            if coord(eff_lsb0(le, bn), sb) != exp:
                                chk.violation("set-denotes", "number passed to set_startbit does not denote the referenced bit",
                                              dict(le=le, size=size, sb=sb, bn=bn, sl=sl), exp, coord(eff_lsb0(le, bn), sb))
                            for (b2, l2), g in zip(NOT6, res[1]):
                                exp = spec_bit_coord(le, size, internal, ref_bit(le, size, l2))
                                if coord(eff_lsb0(le, b2), g) != exp:
                                    chk.violation("get-denotes", "get_startbit returns a number that denotes another physical bit",
                                                  dict(le=le, size=size, sb=sb, set=(bn, sl), get=(b2, l2), internal=internal), exp, g)
                                if (b2, l2 is True) == (bn, sl is True) and g != sb:
                                    chk.violation("get-after-set", "querying in the setting notation does not return the number set",
                                                  dict(le=le, size=size, sb=sb, bn=bn, sl=sl), sb, g)
                        else:
                            # rejected: only allowed when the converted position is negative
                            c = sb
                            if bn is not None and (bn == 1) != le:
                                c = c - c % 8 + 7 - c % 8
                            if sl is True and not le:
                                c = c + 1 - size
                            if c >= 0:
                                chk.violation("rejects-valid", "a position not before bit 0 was rejected",
                                              dict(le=le, size=size, sb=sb, bn=bn, sl=sl), c, "StartbitLowerZero")
                        nontriv = (not le) or (bn is not None and (bn == 1) != le) or res[0][0] == 0
                        chk.case((le, size, sb, bn, sl), nontriv)
                        chk.count("le" if le else "be")
                        chk.count("rejected" if res[0][0] == 0 else "stored")
                        lines.append(core.fmt_case(801, [[int(le), size, sb, -1 if bn is None else bn, int(sl is True)]]))
                        keys.append((le, size, sb, bn, sl))
                        impl_res.append(res)
    # ---- the observable consequence: a payload with only the denoted physical bit set decodes to the referred bit's weight ----
    Frame = cm.canmatrix.Frame
    nprobe = 4000 if not thorough else 40000
    for _ in range(nprobe):
        le = chk.rng.random() < 0.5
        size = chk.rng.randrange(1, 65)
        sb = chk.rng.randrange(0, 512)
        bn = chk.rng.choice(BN)
        sl = chk.rng.choice(SL)
        s = Signal("s", size=size, is_little_endian=le, is_signed=False)
        try:
            s.set_startbit(sb, bitNumbering=bn, startLittle=sl)
        except Exception:
            continue
        internal = s.start_bit
        # does the signal lie inside a 64-byte frame?
        if internal + size > 512:
            continue
        fr = Frame("f", size=64)
        fr.add_signal(s)
        byte, bit = coord(eff_lsb0(le, bn), sb)
        if not (0 <= byte < 64):
            continue
        payload = bytearray(64)
        payload[byte] |= 1 << bit
        got = fr.decode(bytes(payload))["s"].raw_value
        want = 1 << ref_bit(le, size, sl)
        chk.case(("weight", le, size, sb, bn, sl), True)
        chk.count("single-bit-decode")
        if got != want:
            chk.violation("single-bit-weight", "payload with only the denoted bit set does not decode to the referred bit's weight",
                          dict(le=le, size=size, sb=sb, bn=bn, sl=sl, byte=byte, bit=bit), want, got)
    # ---- histories on ONE signal object: queries interleaved with edits through the public attributes ----
    # (get_startbit must describe the signal as it is NOW: width, position and byte order may have been assigned directly,
    #  as Frame.compress and the readers do, with no set_startbit call in between)
    nhist = 600 if not thorough else 8000
    for _ in range(nhist):
        le = chk.rng.random() < 0.5
        s = Signal("s", size=chk.rng.randrange(1, 65), is_little_endian=le, start_bit=chk.rng.randrange(0, 448))
        trace = [("new", s.start_bit, s.size, s.is_little_endian)]
        for step in range(chk.rng.randrange(3, 8)):
            op = chk.rng.choice(["get", "get", "size", "start", "flip", "set"])
            if op == "size":
                s.size = chk.rng.randrange(1, 65)
            elif op == "start":
                s.start_bit = chk.rng.randrange(0, 448)
            elif op == "flip":
                s.is_little_endian = not s.is_little_endian
            elif op == "set":
                try:
                    s.set_startbit(chk.rng.randrange(64, 448), bitNumbering=chk.rng.choice(BN), startLittle=chk.rng.choice(SL))
                except Exception:
                    pass
            trace.append((op, s.start_bit, s.size, s.is_little_endian))
            if op != "get":
                continue
            fresh = Signal("s", size=s.size, is_little_endian=s.is_little_endian, start_bit=s.start_bit)
            for (b2, l2) in NOT6:
                g = s.get_startbit(bit_numbering=b2, start_little=l2)
                g_pos = s.get_startbit(b2, l2)
                gf = fresh.get_startbit(bit_numbering=b2, start_little=l2)
                exp = spec_bit_coord(s.is_little_endian, s.size, s.start_bit, ref_bit(s.is_little_endian, s.size, l2))
                chk.case(("hist", tuple(trace), b2, l2), True)
                chk.count("get-after-attribute-edit" if any(t[0] in ("size", "start", "flip") for t in trace) else "get-in-history")
                if g != gf or g_pos != g or coord(eff_lsb0(s.is_little_endian, b2), g) != exp:
                    chk.violation("get-after-edit", "get_startbit on an edited signal differs from a fresh signal with the same definition "
                                  "(the answer does not denote the signal's current bit)",
                                  dict(history=trace, get=(b2, l2)), gf, (g, g_pos))
                    break
    chk.sample({"le": False, "size": 12, "set": [7, 1, False], "internal": 0, "gets(None/0/1 x msb/lsb)": [0, 11, 0, 11, 7, 12]})
    chk.exhaustive = True
    if not ok:
        chk.ties["correspondence"] = "not run (build failed)"
        return
    out = core.run_model(lines)
    bad = 0
    for k, r, o in zip(keys, impl_res, out):
        if core.parse_out(o) != r:
            bad += 1
            chk.tie_break("startbit-exhaustive", dict(zip(("le", "size", "sb", "bn", "sl"), k)), o, r)
    chk.ties["correspondence"] = {"suite": "startbit-exhaustive", "cases": len(lines), "disagreements": bad}
    # extraction-free cross-check on a seeded subset
    idx = chk.rng.sample(range(len(lines)), 400)
    shard = [(801, [[int(keys[i][0]), keys[i][1], keys[i][2], -1 if keys[i][3] is None else keys[i][3], int(keys[i][4] is True)]], impl_res[i]) for i in idx]
    mm, log = core.coq_shard(shard, "c08")
    chk.ties["vm_compute_shard"] = {"cases": len(shard), "mismatches": mm}
    if mm is None:
        chk.obligation_failures.append("in-Coq shard failed to evaluate")
        chk.build_log = log[-3000:]
    else:
        for i in mm:
            chk.tie_break("startbit-shard", shard[i][1], "vm_compute differs", shard[i][2])
