#!/bin/bash
# Offline cold build: full .vo build of the Coq development + extracted OCaml driver.
set -e
cd "$(dirname "$0")"
mkdir -p build evidence replays
export PYTHONPATH="${VERIF_REPO:-/repo}/src" PYTHONHASHSEED=0 PYTHONDONTWRITEBYTECODE=1
/venv/bin/python - <<'PY'
import sys, os
sys.path.insert(0, os.path.join(os.getcwd(), "harness"))
import core
ok, log, t = core.build(timeout=3000)
print(log[-3000:])
print("translator:", t)
sys.exit(0 if ok else 1)
PY
